/-
  C19 — Reload swaps the whole configuration or none of it.
  The reload state machine (pure part of `load_zone_configuration` + `reload_task`), over
  arbitrary histories of reload attempts.  Signal delivery, the tokio RwLock and the file system
  are observed on the real binary by the reload stream, not modelled.
  Property theorems only; `reloadHistory` and the helper lemmas (`srv_…`) live in
  Proofs/ServerLemmas.lean.
-/
import Resolved.Proofs.ServerLemmas
import Resolved.Props.C01
import Resolved.Props.C04

namespace Resolved

/-! ## 0. First-claim theorems (kept) -/

/-- One unreadable or invalid file (zone or hosts) makes the whole load fail … -/
theorem C19_one_bad_file_fails_load (zoneFiles : List (Option Zone)) (hosts : Option Zone)
    (h : none ∈ zoneFiles ∨ hosts = none) : loadConfiguration zoneFiles hosts = none := by
  unfold loadConfiguration
  rcases h with h | h
  · have : zoneFiles.any Option.isNone = true := by
      simp only [List.any_eq_true]; exact ⟨none, h, rfl⟩
    simp [this]
  · simp [h]

/-- … and a failed load leaves the live configuration exactly as it was; a successful one
    replaces it as a whole. -/
theorem C19_all_or_nothing (live : Zones) (loaded : Option Zones) :
    (loaded = none → reload live loaded = (live, false)) ∧
    (∀ z, loaded = some z → reload live loaded = (z, true)) := by
  constructor
  · intro h; subst h; rfl
  · intro z h; subst h; rfl

/-- A query is answered from exactly one configuration value: the server's answer is a function
    of the `Zones` value it read, so with a reload in progress it is the answer under the old or
    under the new configuration, entirely. -/
theorem C19_snapshot (old _new : Zones) (loaded : Option Zones) (buf : List UInt8) (swapped : Bool) :
    let live := if swapped then (reload old loaded).1 else old
    serveUdp true (authOnlyResolver live) buf = serveUdp true (authOnlyResolver old) buf ∨
    serveUdp true (authOnlyResolver live) buf = serveUdp true (authOnlyResolver (reload old loaded).1) buf := by
  cases swapped <;> simp

/-! ## 1. Histories of reload attempts -/

/-- **Last good configuration.**  After ANY sequence of reload attempts (`some z` = every file
    loaded and gave `z`; `none` = some file failed) the live configuration is exactly the most
    recent successfully loaded one, or the initial one if none succeeded. -/
theorem C19_history_last_good (init : Zones) (hist : List (Option Zones)) :
    reloadHistory init hist = ((hist.filterMap id).getLast?).getD init :=
  srv_reloadHistory_last_good hist init

/-- one step of the history is `reload` -/
theorem C19_history_step (init : Zones) (hist : List (Option Zones)) (l : Option Zones) :
    reloadHistory init (hist ++ [l]) = (reload (reloadHistory init hist) l).1 := by
  rw [srv_reloadHistory_append]; rfl

/-- **Nothing of the old lingers.**  The configuration after a successful reload does not depend
    on the one before it … -/
theorem C19_nothing_lingers (live1 live2 z : Zones) :
    (reload live1 (some z)).1 = (reload live2 (some z)).1 ∧ (reload live1 (some z)).1 = z ∧
    (reload live1 (some z)).2 = true :=
  ⟨rfl, rfl, rfl⟩

/-- … and neither does the live configuration after any history whose last attempt succeeded:
    it is that attempt's configuration, whatever the initial configuration and whatever was
    loaded or failed before. -/
theorem C19_nothing_lingers_history (init1 init2 : Zones) (hist1 hist2 : List (Option Zones))
    (z : Zones) :
    reloadHistory init1 (hist1 ++ [some z]) = z ∧
    reloadHistory init1 (hist1 ++ [some z]) = reloadHistory init2 (hist2 ++ [some z]) := by
  rw [C19_history_step, C19_history_step]; exact ⟨rfl, rfl⟩

/-- … also when failed attempts follow the successful one. -/
theorem C19_last_success_wins (init : Zones) (before after : List (Option Zones)) (z : Zones)
    (hfail : ∀ l ∈ after, l = none) :
    reloadHistory init (before ++ some z :: after) = z := by
  rw [srv_reloadHistory_append, srv_reloadHistory_cons, srv_reload_some,
    srv_reloadHistory_all_failed _ _ hfail]

/-! ## 2. Failed reloads are invisible -/

/-- A failed reload changes no answer, over UDP or TCP … -/
theorem C19_failed_reload_invisible (live : Zones) (buf : List UInt8) (n : Nat) :
    (reload live none).1 = live ∧ (reload live none).2 = false ∧
    serveUdp true (authOnlyResolver (reload live none).1) buf = serveUdp true (authOnlyResolver live) buf ∧
    serveTcp true (authOnlyResolver (reload live none).1) n buf
      = serveTcp true (authOnlyResolver live) n buf :=
  ⟨rfl, rfl, rfl, rfl⟩

/-- … and neither does a whole run of failed reloads after any history. -/
theorem C19_failed_suffix_invisible (init : Zones) (hist failed : List (Option Zones))
    (hfail : ∀ l ∈ failed, l = none) (buf : List UInt8) (n : Nat) :
    reloadHistory init (hist ++ failed) = reloadHistory init hist ∧
    serveUdp true (authOnlyResolver (reloadHistory init (hist ++ failed))) buf
      = serveUdp true (authOnlyResolver (reloadHistory init hist)) buf ∧
    serveTcp true (authOnlyResolver (reloadHistory init (hist ++ failed))) n buf
      = serveTcp true (authOnlyResolver (reloadHistory init hist)) n buf := by
  have h : reloadHistory init (hist ++ failed) = reloadHistory init hist := by
    rw [srv_reloadHistory_append, srv_reloadHistory_all_failed _ _ hfail]
  rw [h]; exact ⟨rfl, rfl, rfl⟩

/-- If no attempt ever succeeded the server still runs on its initial configuration. -/
theorem C19_all_failed (init : Zones) (hist : List (Option Zones)) (hfail : ∀ l ∈ hist, l = none) :
    reloadHistory init hist = init :=
  srv_reloadHistory_all_failed init hist hfail

/-! ## 3. Loading is all or nothing and looks at the files only -/

/-- A load succeeds only if every zone file and the hosts files loaded … -/
theorem C19_load_all_files (zoneFiles : List (Option Zone)) (hosts : Option Zone) (zs : Zones)
    (h : loadConfiguration zoneFiles hosts = some zs) :
    (∀ f ∈ zoneFiles, f.isSome = true) ∧ hosts.isSome = true :=
  srv_load_some h

/-- … and when they all did, the result is the zones merged in load order into the empty
    configuration, then the hosts zone merged in (the only remaining failure is a `merge` of two
    zones of the same apex that `Zone::merge` rejects — the `unwrap` panic site). -/
theorem C19_load_success_value (zs : List Zone) (h : Zone) :
    loadConfiguration (zs.map some) (some h) =
      (zs.foldl (fun acc z => acc.bind (·.insertMerge z)) (some Zones.empty)).bind
        (·.insertMerge h) :=
  srv_load_all_some zs h

/-- A failing file at ANY position of the list makes the whole load fail, whatever stands before
    and after it and whatever the hosts files give; so does a failing hosts file. -/
theorem C19_load_failure_positions (pre suf : List (Option Zone)) (hosts : Option Zone)
    (zoneFiles : List (Option Zone)) :
    loadConfiguration (pre ++ none :: suf) hosts = none ∧
    loadConfiguration zoneFiles none = none :=
  ⟨srv_load_none_at pre suf hosts, srv_load_no_hosts zoneFiles⟩

/-- exactness: the load fails for a missing file, or (all files present) for a rejected merge -/
theorem C19_load_none_iff (zoneFiles : List (Option Zone)) (hosts : Option Zone) :
    loadConfiguration zoneFiles hosts = none ↔
      (none ∈ zoneFiles ∨ hosts = none ∨
       ∃ (zs : List Zone) (h : Zone), zoneFiles = zs.map some ∧ hosts = some h ∧
         (zs.foldl (fun acc z => acc.bind (·.insertMerge z)) (some Zones.empty)).bind
           (·.insertMerge h) = none) := by
  constructor
  · intro hn
    by_cases h1 : none ∈ zoneFiles
    · exact .inl h1
    · cases hosts with
      | none => exact .inr (.inl rfl)
      | some h =>
        right; right
        have hz : zoneFiles = (zoneFiles.filterMap id).map some := by
          clear hn
          induction zoneFiles with
          | nil => rfl
          | cons f fs ih =>
            cases f with
            | none => exact absurd (List.mem_cons_self) h1
            | some z =>
              simp only [List.filterMap_cons, id, List.map_cons]
              rw [← ih (fun hm => h1 (List.mem_cons_of_mem _ hm))]
        refine ⟨zoneFiles.filterMap id, h, hz, rfl, ?_⟩
        rw [← srv_load_all_some, ← hz]; exact hn
  · rintro (h | h | ⟨zs, h, h1, h2, h3⟩)
    · exact C19_one_bad_file_fails_load zoneFiles hosts (.inl h)
    · exact C19_one_bad_file_fails_load zoneFiles hosts (.inr h)
    · rw [h1, h2, srv_load_all_some]; exact h3

/-- The configuration a successful reload installs is a function of the files alone: the same
    value for every previous live configuration — and a failed load keeps exactly the previous
    one. -/
theorem C19_reload_load (live : Zones) (zoneFiles : List (Option Zone)) (hosts : Option Zone) :
    (∀ zs, loadConfiguration zoneFiles hosts = some zs →
      reload live (loadConfiguration zoneFiles hosts) = (zs, true)) ∧
    (loadConfiguration zoneFiles hosts = none →
      reload live (loadConfiguration zoneFiles hosts) = (live, false)) := by
  constructor
  · intro zs h; rw [h]; rfl
  · intro h; rw [h]; rfl

/-- one reload with a bad file anywhere: configuration and answers unchanged -/
theorem C19_bad_file_reload_invisible (live : Zones) (pre suf : List (Option Zone))
    (hosts : Option Zone) (buf : List UInt8) :
    reload live (loadConfiguration (pre ++ none :: suf) hosts) = (live, false) ∧
    serveUdp true (authOnlyResolver (reload live (loadConfiguration (pre ++ none :: suf) hosts)).1) buf
      = serveUdp true (authOnlyResolver live) buf := by
  rw [srv_load_none_at]; exact ⟨rfl, rfl⟩

/-! ## 4. One query, one configuration -/

/-- `C19_snapshot` for TCP. -/
theorem C19_snapshot_tcp (old : Zones) (loaded : Option Zones) (buf : List UInt8) (n : Nat)
    (swapped : Bool) :
    let live := if swapped then (reload old loaded).1 else old
    serveTcp true (authOnlyResolver live) n buf = serveTcp true (authOnlyResolver old) n buf ∨
    serveTcp true (authOnlyResolver live) n buf
      = serveTcp true (authOnlyResolver (reload old loaded).1) n buf := by
  cases swapped <;> simp

/-- **Whole configurations only.**  At every point `k` of a history of reload attempts the live
    configuration is the initial one or one of the successfully loaded ones, as a whole — never
    a mixture — so a query read at that point is answered from exactly that one configuration,
    over UDP and over TCP. -/
theorem C19_snapshot_history (init : Zones) (hist : List (Option Zones)) (k : Nat)
    (buf : List UInt8) (n : Nat) :
    ∃ z, (z = init ∨ some z ∈ hist) ∧ reloadHistory init (hist.take k) = z ∧
      serveUdp true (authOnlyResolver (reloadHistory init (hist.take k))) buf
        = serveUdp true (authOnlyResolver z) buf ∧
      serveTcp true (authOnlyResolver (reloadHistory init (hist.take k))) n buf
        = serveTcp true (authOnlyResolver z) n buf := by
  refine ⟨reloadHistory init (hist.take k), ?_, rfl, rfl, rfl⟩
  rcases srv_reloadHistory_mem (hist.take k) init with h | h
  · exact .inl h
  · exact .inr (List.mem_of_mem_take h)

/-- The configuration read at point `k` is the last success among the first `k` attempts. -/
theorem C19_snapshot_is_last_good (init : Zones) (hist : List (Option Zones)) (k : Nat) :
    reloadHistory init (hist.take k) = (((hist.take k).filterMap id).getLast?).getD init :=
  C19_history_last_good init (hist.take k)

/-- The answers depend on the configuration only (extensionality of the serve functions in the
    `Zones` value): equal configurations, equal octets. -/
theorem C19_answers_from_configuration (z1 z2 : Zones) (h : z1 = z2) (buf : List UInt8) (n : Nat) :
    serveUdp true (authOnlyResolver z1) buf = serveUdp true (authOnlyResolver z2) buf ∧
    serveTcp true (authOnlyResolver z1) n buf = serveTcp true (authOnlyResolver z2) n buf := by
  subst h; exact ⟨rfl, rfl⟩

/-! ## 5. Non-vacuity -/

namespace C19ex
/-- a zone for the root apex with no records, and a configuration holding it -/
def rootZone : Zone := Zone.new Name.root none
def cfg1 : Zones := Zones.empty.insert rootZone
end C19ex

example : reloadHistory Zones.empty [none, some C19ex.cfg1, none, none] = C19ex.cfg1 := rfl
example : reloadHistory C19ex.cfg1 [none, none] = C19ex.cfg1 := rfl
example : reloadHistory C19ex.cfg1 [some Zones.empty, none, some C19ex.cfg1, some Zones.empty]
    = Zones.empty := rfl
example : reloadHistory C19ex.cfg1 ([none, some Zones.empty] ++ [some C19ex.cfg1]) = C19ex.cfg1 :=
  (C19_nothing_lingers_history C19ex.cfg1 Zones.empty [none, some Zones.empty] [] C19ex.cfg1).1
/-- a load that succeeds (no zone files, an empty hosts zone) and loads that fail -/
example : ∃ zs, loadConfiguration [] (some C19ex.rootZone) = some zs := ⟨_, rfl⟩
example : ∃ zs, loadConfiguration [some C19ex.rootZone] (some C19ex.rootZone) = some zs := by
  rw [show [some C19ex.rootZone] = [C19ex.rootZone].map some from rfl, C19_load_success_value]
  exact ⟨_, rfl⟩
example : loadConfiguration [some C19ex.rootZone, none] (some C19ex.rootZone) = none :=
  (C19_load_failure_positions [some C19ex.rootZone] [] _ []).1
example : loadConfiguration [some C19ex.rootZone] none = none :=
  (C19_load_failure_positions [] [] none _).2
/-- a reload from files on a live configuration: success swaps, failure keeps -/
example : (reload C19ex.cfg1 (loadConfiguration [] (some C19ex.rootZone))).2 = true := rfl
example : reload C19ex.cfg1 (loadConfiguration [none] (some C19ex.rootZone)) = (C19ex.cfg1, false) :=
  (C19_bad_file_reload_invisible C19ex.cfg1 [] [] _ []).1

/-- `C19_last_success_wins` with a satisfiable "all failed afterwards" hypothesis -/
example : reloadHistory Zones.empty ([none] ++ some C19ex.cfg1 :: [none, none]) = C19ex.cfg1 :=
  C19_last_success_wins Zones.empty [none] [none, none] C19ex.cfg1 (by simp)
/-- the two example configurations are different values -/
example : C19ex.cfg1.zones.length = 1 ∧ Zones.empty.zones.length = 0 := ⟨rfl, rfl⟩

/-! A reload that succeeds IS visible (the theorems above are not about indistinguishable
    configurations): the query `w.e. A` gets SERVFAIL from the empty configuration, before and
    after a failed reload, and the authoritative answer `w.e. A 0.0.0.1` + SOA of `e.` once the
    configuration `Ex.zones` (Proofs/ResolverLocalExamples.lean) has been loaded. -/

namespace C19ex
def wQuery : Message :=
  { header := ⟨7, false, 0, false, false, false, false, 0⟩
    questions := [Ex.qA Ex.nWE], answers := [], authority := [], additional := [] }
def wQueryBytes : List UInt8 := [0, 7, 0, 0, 0, 1, 0, 0, 0, 0, 0, 0, 1, 119, 1, 101, 0, 0, 1, 0, 1]
theorem wQuery_decodes : decodeMessage wQueryBytes = .ok wQuery :=
  C04_roundtrip _ _ (by decide) (by decide)
theorem handle_w (zs : Zones) : handleRawMessage true (authOnlyResolver zs) wQueryBytes =
    some (srvReplyOf true wQuery (authOnlyResolver zs (Ex.qA Ex.nWE) false)) := by
  rw [srv_handle_query wQuery_decodes rfl rfl,
    srv_rabr_question true _ _ _ (srv_triage_one_known rfl (by decide))]
  rfl
theorem resolver_empty :
    authOnlyResolver Zones.empty (Ex.qA Ex.nWE) false = .error (.deadEnd (Ex.qA Ex.nWE)) := by
  decide
theorem resolver_loaded :
    authOnlyResolver Ex.zones (Ex.qA Ex.nWE) false = .ok (.authoritative [Ex.rrW] Ex.soaRRE) := by
  unfold authOnlyResolver
  rw [(C01_auth_only_mode _ (Ex.qA Ex.nWE) Ex.zoneE Ex.soaRRE (by decide) (by decide) rfl).1
    [Ex.rrW] Ex.resolve_w]
end C19ex

example : serveUdp true (authOnlyResolver (reloadHistory Zones.empty [none])) C19ex.wQueryBytes =
    some [0, 7, 128, 2, 0, 1, 0, 0, 0, 0, 0, 0, 1, 119, 1, 101, 0, 0, 1, 0, 1] := by
  rw [show reloadHistory Zones.empty [none] = Zones.empty from rfl, srv_serveUdp_eq,
    C19ex.handle_w, C19ex.resolver_empty]
  decide

example : serveUdp true (authOnlyResolver (reloadHistory Zones.empty [none, some Ex.zones, none]))
      C19ex.wQueryBytes =
    some [0, 7, 132, 0, 0, 1, 0, 1, 0, 1, 0, 0, 1, 119, 1, 101, 0, 0, 1, 0, 1, 192, 12, 0, 1, 0, 1,
      0, 0, 1, 44, 0, 4, 0, 0, 0, 1, 1, 101, 0, 0, 6, 0, 1, 0, 0, 0, 5, 0, 26, 1, 101, 0, 1, 101, 0,
      0, 0, 0, 1, 0, 0, 0, 2, 0, 0, 0, 3, 0, 0, 0, 4, 0, 0, 0, 5] := by
  rw [show reloadHistory Zones.empty [none, some Ex.zones, none] = Ex.zones from rfl,
    srv_serveUdp_eq, C19ex.handle_w, C19ex.resolver_loaded]
  decide

end Resolved
