/-
  C09, last clause — "…the answer and authority sections, AA and RCODE are those the resolver
  produced for the question: an answer section holds only records for the question name or its
  CNAME chain."

  `C09_aa_iff` (Props/C09.lean) proves the first half for EVERY resolver.  This file proves the
  second half for the server in AUTHORITATIVE-ONLY mode over any configuration `zones`
  (`authOnlyResolver zones`: `resolve_local` over the configuration, an empty cache, an empty
  question stack — `so_ctx zones`), by carrying the chain shape of C10 (`ChainShaped`,
  Proofs/ResolverLocalChain.lean) through `resolve_and_build_response` / `handle_raw_message`
  and, for replies that fit a datagram, through the wire.

  Hypothesis on the configuration: (H-zone) `ZoneAnswersTyped zones` — zone answers carry records
  of the asked type, alias verdicts a CNAME record, referrals NS records.  It holds of every
  `Zones.Configured` (C10) and hence of everything `loadConfiguration` produces from built zones
  (`C09_owner_hypotheses_established`, `C09_answer_owners_loaded`).  The cache hypothesis of C10 is
  discharged: the authoritative-only server resolves with the empty cache.

  What the model (and the Rust it mirrors) does that the prose does not say — OPEN FINDING F10:
  when the question falls beneath a delegation point of an authoritative zone the local resolver
  returns a referral, which `From<LocalResolutionResult> for ResolvedRecord` turns into an
  AUTHORITATIVE ANSWER: the NS records of the delegation point sit in the ANSWER section with AA
  set (`C09_referral_is_the_exception`).  Their owner is the delegation point, not the question
  name, and they are no alias chain (`C09_referral_breaks_chain`, `C09_referral_owner_off_chain`,
  concrete instance at the end).  So the clause holds exactly when the local resolution is not a
  referral: `C09_answer_owners_iff`.

  Helper lemmas (`so_…`) live in Proofs/ServerOwners.lean.
-/
import Resolved.Props.C09
import Resolved.Props.C10
import Resolved.Proofs.ServerOwners

namespace Resolved

open Gen

/-! ## 1. Answer owners: the question name or its CNAME chain -/

/-- **Answer section = the question's alias chain and the records at its end.**  Authoritative-only
    server over `zones` satisfying (H-zone).  For every buffer that decodes to a message with the
    single question `q` of a type other than CNAME and ANY, whatever reply `handle_raw_message`
    builds: if the local resolution of `q` is not a referral, the answer section is an alias chain
    starting at the question name, without repeated owner, followed only by records of the asked
    type owned by the chain's final target.
    All outcomes are covered: authoritative answer, authoritative name error (no answers),
    non-authoritative answer (SOA-less zone such as the hosts zone, or an unfinished alias walk),
    resolver errors (SERVFAIL, no answers).  The message need not be a standard query nor the
    question's type/class known: NOTIMP, REFUSED and SERVFAIL replies carry no answer record. -/
theorem C09_answer_owners_auth_only (zones : Zones) (hzone : ZoneAnswersTyped zones)
    (buf : List UInt8) (m r : Message) (q : Question)
    (hd : decodeMessage buf = .ok m) (hq : m.questions = [q])
    (h5 : q.qtype ≠ RT_CNAME) (h255 : q.qtype ≠ QTYPE_WILDCARD)
    (h : handleRawMessage true (authOnlyResolver zones) buf = some r)
    (hnd : ∀ rs s d, (resolveLocal (RECURSION_LIMIT + 1) (so_ctx zones) q).2 ≠ .ok (.delegation rs s d)) :
    ChainShaped q.name q.qtype r.answers := by
  rcases so_handle_answers hd hq h with h0 | h1
  · rw [h0]; exact so_chainShaped_nil _ _
  · rw [h1, so_authOnly_eq]
    exact so_authOnly_answers_chain (so_ctx zones) q hzone (cacheTyped_new 512) h5 h255 hnd

/-- … hence every answer record is owned by the question name or by the target of an alias record
    of the answer section. -/
theorem C09_answer_owner_on_chain (zones : Zones) (hzone : ZoneAnswersTyped zones)
    (buf : List UInt8) (m r : Message) (q : Question)
    (hd : decodeMessage buf = .ok m) (hq : m.questions = [q])
    (h5 : q.qtype ≠ RT_CNAME) (h255 : q.qtype ≠ QTYPE_WILDCARD)
    (h : handleRawMessage true (authOnlyResolver zones) buf = some r)
    (hnd : ∀ rs s d, (resolveLocal (RECURSION_LIMIT + 1) (so_ctx zones) q).2 ≠ .ok (.delegation rs s d)) :
    ∀ rr ∈ r.answers, rr.name = q.name ∨ ∃ c ∈ r.answers, cnameTarget c = some rr.name :=
  so_chainShaped_owner (C09_answer_owners_auth_only zones hzone buf m r q hd hq h5 h255 h hnd)

/-- … more precisely by the target of a record that comes STRICTLY EARLIER in the section: the
    chain is sent in order. -/
theorem C09_answer_owner_earlier (zones : Zones) (hzone : ZoneAnswersTyped zones)
    (buf : List UInt8) (m r : Message) (q : Question)
    (hd : decodeMessage buf = .ok m) (hq : m.questions = [q])
    (h5 : q.qtype ≠ RT_CNAME) (h255 : q.qtype ≠ QTYPE_WILDCARD)
    (h : handleRawMessage true (authOnlyResolver zones) buf = some r)
    (hnd : ∀ rs s d, (resolveLocal (RECURSION_LIMIT + 1) (so_ctx zones) q).2 ≠ .ok (.delegation rs s d)) :
    ∀ (i : Nat) (rr : RR), r.answers[i]? = some rr →
      rr.name = q.name ∨ ∃ j c, j < i ∧ r.answers[j]? = some c ∧ cnameTarget c = some rr.name :=
  so_chainShaped_earlier (C09_answer_owners_auth_only zones hzone buf m r q hd hq h5 h255 h hnd)

/-- … and every answer record is an alias record or a record of the asked type. -/
theorem C09_answer_types_on_chain (zones : Zones) (hzone : ZoneAnswersTyped zones)
    (buf : List UInt8) (m r : Message) (q : Question)
    (hd : decodeMessage buf = .ok m) (hq : m.questions = [q])
    (h5 : q.qtype ≠ RT_CNAME) (h255 : q.qtype ≠ QTYPE_WILDCARD)
    (h : handleRawMessage true (authOnlyResolver zones) buf = some r)
    (hnd : ∀ rs s d, (resolveLocal (RECURSION_LIMIT + 1) (so_ctx zones) q).2 ≠ .ok (.delegation rs s d)) :
    ∀ rr ∈ r.answers, (∃ t, cnameTarget rr = some t) ∨ (rr.rtype = q.qtype ∧ cnameTarget rr = none) :=
  so_chainShaped_types (C09_answer_owners_auth_only zones hzone buf m r q hd hq h5 h255 h hnd)

/-- The reply to a standard query with one known question, outcome by outcome (the first half of
    the clause, `C09_aa_iff`, together with the second): sections, AA and RCODE are the resolver's,
    and the answers are chain-shaped in each case. -/
theorem C09_answer_owners_by_outcome (zones : Zones) (hzone : ZoneAnswersTyped zones)
    (buf : List UInt8) (m r : Message) (q : Question)
    (hd : decodeMessage buf = .ok m) (ho : m.header.opcode = OPCODE_STANDARD)
    (hq : m.questions = [q]) (hk : questionIsUnknown q = false)
    (h5 : q.qtype ≠ RT_CNAME) (h255 : q.qtype ≠ QTYPE_WILDCARD)
    (h : handleRawMessage true (authOnlyResolver zones) buf = some r)
    (hnd : ∀ rs s d, (resolveLocal (RECURSION_LIMIT + 1) (so_ctx zones) q).2 ≠ .ok (.delegation rs s d)) :
    ChainShaped q.name q.qtype r.answers ∧
    ((∃ e, (resolveAuthoritativeOnly (so_ctx zones) q).2 = .error e ∧
        r.answers = [] ∧ r.authority = [] ∧ r.header.isAuthoritative = false ∧
        r.header.rcode = RCODE_SERVFAIL) ∨
     (∃ soa, (resolveAuthoritativeOnly (so_ctx zones) q).2 = .ok (.authoritativeNameError soa) ∧
        r.answers = [] ∧ r.authority = [soa] ∧ r.header.isAuthoritative = true ∧
        r.header.rcode = RCODE_NAMEERROR) ∨
     (∃ rrs soa, (resolveAuthoritativeOnly (so_ctx zones) q).2 = .ok (.authoritative rrs soa) ∧
        r.answers = rrs ∧ r.authority = [soa] ∧ r.header.isAuthoritative = true ∧
        r.header.rcode = RCODE_NOERROR) ∨
     (∃ rrs s, (resolveAuthoritativeOnly (so_ctx zones) q).2 = .ok (.nonAuthoritative rrs s) ∧
        r.answers = rrs ∧ r.authority = s.toList ∧ r.header.isAuthoritative = false ∧
        (r.header.rcode = RCODE_NOERROR ∨ (r.header.rcode = RCODE_SERVFAIL ∧ rrs = [] ∧ s = none)))) := by
  refine ⟨C09_answer_owners_auth_only zones hzone buf m r q hd hq h5 h255 h hnd, ?_⟩
  have hr := so_handle_reply hd ho hq hk h
  rw [so_authOnly_eq] at hr
  subst hr
  match hres : (resolveAuthoritativeOnly (so_ctx zones) q).2 with
  | .error e => exact .inl ⟨e, rfl, rfl, rfl, rfl, rfl⟩
  | .ok (.authoritativeNameError soa) => exact .inr (.inl ⟨soa, rfl, rfl, rfl, rfl, rfl⟩)
  | .ok (.authoritative rrs soa) => exact .inr (.inr (.inl ⟨rrs, soa, rfl, rfl, rfl, rfl, rfl⟩))
  | .ok (.nonAuthoritative rrs (some s)) =>
    exact .inr (.inr (.inr ⟨rrs, some s, rfl, rfl, rfl, rfl, .inl rfl⟩))
  | .ok (.nonAuthoritative [] none) =>
    exact .inr (.inr (.inr ⟨[], none, rfl, rfl, rfl, rfl, .inr ⟨rfl, rfl, rfl⟩⟩))
  | .ok (.nonAuthoritative (rr :: rrs) none) =>
    exact .inr (.inr (.inr ⟨rr :: rrs, none, rfl, rfl, rfl, rfl, .inl rfl⟩))

/-! ## The hypothesis is established by the loader -/

/-- (H-zone) holds of every configuration made by `Zones::new()` and `insert_merge` of zones built
    by `Zone::new` and insertions (`Zones.Configured`, C10); `load_zone_configuration` makes such a
    configuration from zone files and a hosts zone so built (`so_built`); the cache the
    authoritative-only resolver starts from satisfies the cache invariant C10 needs. -/
theorem C09_owner_hypotheses_established :
    (∀ zs : Zones, Zones.Configured zs → ZoneAnswersTyped zs) ∧
    (∀ zoneFiles hosts cfg, (∀ z, some z ∈ zoneFiles → so_built z) → (∀ z, hosts = some z → so_built z) →
      loadConfiguration zoneFiles hosts = some cfg → Zones.Configured cfg) ∧
    (∀ zones, CacheTyped (so_ctx zones).cache) ∧
    (∀ zones q b, authOnlyResolver zones q b = (resolveAuthoritativeOnly (so_ctx zones) q).2) :=
  ⟨fun _ h => h.answersTyped, fun _ _ _ h1 h2 h => so_load_configured h1 h2 h,
   fun _ => cacheTyped_new 512, fun _ _ _ => rfl⟩

/-- the main theorem for a configuration as configured (merges included). -/
theorem C09_answer_owners_configured (zones : Zones) (hcfg : Zones.Configured zones)
    (buf : List UInt8) (m r : Message) (q : Question)
    (hd : decodeMessage buf = .ok m) (hq : m.questions = [q])
    (h5 : q.qtype ≠ RT_CNAME) (h255 : q.qtype ≠ QTYPE_WILDCARD)
    (h : handleRawMessage true (authOnlyResolver zones) buf = some r)
    (hnd : ∀ rs s d, (resolveLocal (RECURSION_LIMIT + 1) (so_ctx zones) q).2 ≠ .ok (.delegation rs s d)) :
    ChainShaped q.name q.qtype r.answers ∧
    ∀ rr ∈ r.answers, rr.name = q.name ∨ ∃ c ∈ r.answers, cnameTarget c = some rr.name :=
  ⟨C09_answer_owners_auth_only zones hcfg.answersTyped buf m r q hd hq h5 h255 h hnd,
   C09_answer_owner_on_chain zones hcfg.answersTyped buf m r q hd hq h5 h255 h hnd⟩

/-- the main theorem for what `load_zone_configuration` hands to the server. -/
theorem C09_answer_owners_loaded (zoneFiles : List (Option Zone)) (hosts : Option Zone) (zones : Zones)
    (hfiles : ∀ z, some z ∈ zoneFiles → so_built z) (hhosts : ∀ z, hosts = some z → so_built z)
    (hload : loadConfiguration zoneFiles hosts = some zones)
    (buf : List UInt8) (m r : Message) (q : Question)
    (hd : decodeMessage buf = .ok m) (hq : m.questions = [q])
    (h5 : q.qtype ≠ RT_CNAME) (h255 : q.qtype ≠ QTYPE_WILDCARD)
    (h : handleRawMessage true (authOnlyResolver zones) buf = some r)
    (hnd : ∀ rs s d, (resolveLocal (RECURSION_LIMIT + 1) (so_ctx zones) q).2 ≠ .ok (.delegation rs s d)) :
    ChainShaped q.name q.qtype r.answers ∧
    ∀ rr ∈ r.answers, rr.name = q.name ∨ ∃ c ∈ r.answers, cnameTarget c = some rr.name :=
  C09_answer_owners_configured zones (so_load_configured hfiles hhosts hload) buf m r q hd hq h5 h255 h hnd

/-! ## 2. The referral is the exception (open finding F10) -/

/-- **What the model returns beneath a delegation point.**  Standard query, one known question, the
    local resolution a referral `.delegation rs s d`: `rs` is the non-empty NS set of a delegation
    point of an authoritative zone (`s` = that zone's SOA), and the reply carries `rs` in its
    ANSWER section with AA set, RCODE NOERROR and the SOA as authority.  Every answer record is
    owned by the delegation point `d.name`; under (H-zone) they all are NS records, none an alias. -/
theorem C09_referral_is_the_exception (zones : Zones)
    (buf : List UInt8) (m r : Message) (q : Question)
    (hd : decodeMessage buf = .ok m) (ho : m.header.opcode = OPCODE_STANDARD)
    (hq : m.questions = [q]) (hk : questionIsUnknown q = false)
    (h : handleRawMessage true (authOnlyResolver zones) buf = some r)
    (rs : List RR) (s : Option RR) (d : Nameservers)
    (hdel : (resolveLocal (RECURSION_LIMIT + 1) (so_ctx zones) q).2 = .ok (.delegation rs s d)) :
    ∃ z soa first rest, s = some soa ∧ rs = first :: rest ∧
      zones.resolve q.name q.qtype = some (z, some (.delegation rs)) ∧ z.soaRR = some soa ∧
      d.name = first.name ∧
      r.answers = rs ∧ r.authority = [soa] ∧ r.additional = [] ∧
      r.header.isAuthoritative = true ∧ r.header.rcode = RCODE_NOERROR ∧
      (∀ rr ∈ r.answers, rr.name = d.name) ∧
      (ZoneAnswersTyped zones → ∀ rr ∈ r.answers, rr.rtype = RT_NS ∧ cnameTarget rr = none) := by
  obtain ⟨z, soa, first, rest, h1, h2, h3, h4, h5, h6, h7⟩ := so_referral hdel
  have hr := so_handle_reply hd ho hq hk h
  have hres : authOnlyResolver zones q (m.header.recursionDesired && !true) = .ok (.authoritative rs soa) := by
    rw [so_authOnly_eq, so_resolveAuthOnly_snd, hdel, h1]; rfl
  rw [hres] at hr
  subst hr
  exact ⟨z, soa, first, rest, h1, h2, h3, h4, by rw [h5], rfl, rfl, rfl, rfl, rfl, h6, h7⟩

/-- Such an answer section is NOT the question's chain, unless the question asks for NS records of
    the delegation point itself (a case `zone_result_helper` excludes at the node it looks at —
    an NS question there is answered, not referred; not needed and not proved here for the whole
    tree): under (H-zone), with a type other than NS or a delegation point other than the
    question name, `ChainShaped` fails. -/
theorem C09_referral_breaks_chain (zones : Zones) (hzone : ZoneAnswersTyped zones)
    (buf : List UInt8) (m r : Message) (q : Question)
    (hd : decodeMessage buf = .ok m) (ho : m.header.opcode = OPCODE_STANDARD)
    (hq : m.questions = [q]) (hk : questionIsUnknown q = false)
    (h : handleRawMessage true (authOnlyResolver zones) buf = some r)
    (rs : List RR) (s : Option RR) (d : Nameservers)
    (hdel : (resolveLocal (RECURSION_LIMIT + 1) (so_ctx zones) q).2 = .ok (.delegation rs s d))
    (hoff : q.qtype ≠ RT_NS ∨ d.name ≠ q.name) :
    ¬ ChainShaped q.name q.qtype r.answers := by
  obtain ⟨z, soa, first, rest, _, h2, _, _, h5, h6, _, _, _, _, h11, h12⟩ :=
    C09_referral_is_the_exception zones buf m r q hd ho hq hk h rs s d hdel
  intro hc
  rw [h6, h2] at hc
  have hmem : first ∈ r.answers := by rw [h6, h2]; simp
  obtain ⟨hn, ht⟩ := so_not_chainShaped (h12 hzone first hmem).2 hc
  rcases hoff with hoff | hoff
  · exact hoff (ht.symm.trans (h12 hzone first hmem).1)
  · exact hoff (h5.trans hn)

/-- In owner terms: beneath a delegation point other than the question name the answer section is
    not empty and NO answer record is owned by the question name or by the target of an alias
    record of the section. -/
theorem C09_referral_owner_off_chain (zones : Zones) (hzone : ZoneAnswersTyped zones)
    (buf : List UInt8) (m r : Message) (q : Question)
    (hd : decodeMessage buf = .ok m) (ho : m.header.opcode = OPCODE_STANDARD)
    (hq : m.questions = [q]) (hk : questionIsUnknown q = false)
    (h : handleRawMessage true (authOnlyResolver zones) buf = some r)
    (rs : List RR) (s : Option RR) (d : Nameservers)
    (hdel : (resolveLocal (RECURSION_LIMIT + 1) (so_ctx zones) q).2 = .ok (.delegation rs s d))
    (hoff : d.name ≠ q.name) :
    r.answers ≠ [] ∧
    ∀ rr ∈ r.answers, ¬ (rr.name = q.name ∨ ∃ c ∈ r.answers, cnameTarget c = some rr.name) := by
  obtain ⟨z, soa, first, rest, _, h2, _, _, _, h6, _, _, _, _, h11, h12⟩ :=
    C09_referral_is_the_exception zones buf m r q hd ho hq hk h rs s d hdel
  refine ⟨by rw [h6, h2]; simp, ?_⟩
  intro rr hrr hor
  rcases hor with hn | ⟨c, hc, hct⟩
  · exact hoff ((h11 rr hrr).symm.trans hn)
  · rw [(h12 hzone c hc).2] at hct; cases hct

/-- **The hypothesis of `C09_answer_owners_auth_only` is exactly the gap.**  Standard query, one
    known question of a type other than CNAME, ANY and NS, configuration satisfying (H-zone): the
    answer section is the question's chain if and only if the local resolution is not a referral. -/
theorem C09_answer_owners_iff (zones : Zones) (hzone : ZoneAnswersTyped zones)
    (buf : List UInt8) (m r : Message) (q : Question)
    (hd : decodeMessage buf = .ok m) (ho : m.header.opcode = OPCODE_STANDARD)
    (hq : m.questions = [q]) (hk : questionIsUnknown q = false)
    (h5 : q.qtype ≠ RT_CNAME) (h255 : q.qtype ≠ QTYPE_WILDCARD) (h2 : q.qtype ≠ RT_NS)
    (h : handleRawMessage true (authOnlyResolver zones) buf = some r) :
    ChainShaped q.name q.qtype r.answers ↔
      ∀ rs s d, (resolveLocal (RECURSION_LIMIT + 1) (so_ctx zones) q).2 ≠ .ok (.delegation rs s d) := by
  constructor
  · intro hc rs s d hdel
    exact C09_referral_breaks_chain zones hzone buf m r q hd ho hq hk h rs s d hdel (.inl h2) hc
  · exact C09_answer_owners_auth_only zones hzone buf m r q hd hq h5 h255 h

/-! ## 3. On the wire -/

/-- **The datagram's answer section is the question's chain.**  Under the hypotheses of
    `C09_answer_owners_auth_only`, if the resolver's records for `q` are serialisable
    (`srvResultWF`, as in `C09_udp_reply_decodes` — but asked of the one question only) and the
    serialised reply fits 512 octets, then the datagram sent is that serialisation and what
    `Message::from_octets` reads back from it has a chain-shaped answer section. -/
theorem C09_answer_owners_on_the_wire (zones : Zones) (hzone : ZoneAnswersTyped zones)
    (buf : List UInt8) (m r : Message) (q : Question) (bs : List UInt8)
    (hd : decodeMessage buf = .ok m) (hq : m.questions = [q])
    (h5 : q.qtype ≠ RT_CNAME) (h255 : q.qtype ≠ QTYPE_WILDCARD)
    (h : handleRawMessage true (authOnlyResolver zones) buf = some r)
    (hnd : ∀ rs s d, (resolveLocal (RECURSION_LIMIT + 1) (so_ctx zones) q).2 ≠ .ok (.delegation rs s d))
    (hwf : srvResultWF (authOnlyResolver zones q false))
    (he : encodeMessage r = .ok bs) (hle : bs.length ≤ 512) :
    serveUdp true (authOnlyResolver zones) buf = some bs ∧
    ∃ m', decodeMessage bs = .ok m' ∧ ChainShaped q.name q.qtype m'.answers ∧
      ∀ rr ∈ m'.answers, rr.name = q.name ∨ ∃ c ∈ m'.answers, cnameTarget c = some rr.name := by
  refine ⟨(C09_frames_of_fitting_reply true _ buf r bs h he).1 hle, r, ?_,
    C09_answer_owners_auth_only zones hzone buf m r q hd hq h5 h255 h hnd,
    C09_answer_owner_on_chain zones hzone buf m r q hd hq h5 h255 h hnd⟩
  -- the server consults the resolver for `q` only: replace it elsewhere by a failing one
  let res' : ServerResolver := fun q' b => if q' = q then authOnlyResolver zones q' b else .error .timeout
  have hsame : handleRawMessage true res' buf = handleRawMessage true (authOnlyResolver zones) buf := by
    apply C09_resolver_input_handle
    intro m0 hd0 q0 hq0
    rw [hd] at hd0; cases hd0
    rw [hq] at hq0
    simp only [List.mem_singleton] at hq0
    subst hq0
    simp [res']
  have hres' : ∀ q' b, srvResultWF (res' q' b) := by
    intro q' b
    by_cases hqq : q' = q
    · subst hqq; simp only [res', if_true]; exact hwf
    · simp only [res', hqq, if_false]; trivial
  exact (C09_udp_reply_decodes true res' hres' buf r bs (hsame.trans h) he hle).2

/-! ## 4. CNAME questions -/

/-- A CNAME question is answered with records owned by the question name only (the alias is
    reported, not followed) — again outside a referral; no hypothesis on the configuration. -/
theorem C09_cname_question_owners (zones : Zones)
    (buf : List UInt8) (m r : Message) (q : Question)
    (hd : decodeMessage buf = .ok m) (hq : m.questions = [q]) (h5 : q.qtype = RT_CNAME)
    (h : handleRawMessage true (authOnlyResolver zones) buf = some r)
    (hnd : ∀ rs s d, (resolveLocal (RECURSION_LIMIT + 1) (so_ctx zones) q).2 ≠ .ok (.delegation rs s d)) :
    ∀ rr ∈ r.answers, rr.name = q.name := by
  rcases so_handle_answers hd hq h with h0 | h1
  · rw [h0]; intro rr hrr; cases hrr
  · rw [h1, so_authOnly_eq]
    exact so_authOnly_cname_owners (so_ctx zones) q h5 hnd

/-! ## Non-vacuity and the concrete gap (fixtures: Proofs/ResolverLocalExamples.lean)

  `Ex.zones`: authoritative zone `e.` (`w.e. A 1`, `c.e. CNAME w.e.`, `s.e. NS n.o.`, …) and a
  SOA-less root zone. -/

namespace C09ex

/-- `c.e. A IN`, ID 0x1234, RD -/
def ceQueryBytes : List UInt8 :=
  [0x12, 0x34, 1, 0, 0, 1, 0, 0, 0, 0, 0, 0, 1, 99, 1, 101, 0, 0, 1, 0, 1]
def ceQuery : Message :=
  { header := ⟨0x1234, false, 0, false, false, true, false, 0⟩
    questions := [Ex.qA Ex.nCE], answers := [], authority := [], additional := [] }

/-- `x.s.e. A IN` — beneath the delegation point `s.e.` -/
def xseQueryBytes : List UInt8 :=
  [0x12, 0x34, 1, 0, 0, 1, 0, 0, 0, 0, 0, 0, 1, 120, 1, 115, 1, 101, 0, 0, 1, 0, 1]
def xseQuery : Message :=
  { header := ⟨0x1234, false, 0, false, false, true, false, 0⟩
    questions := [Ex.qA Ex.nXSE], answers := [], authority := [], additional := [] }

theorem ceQuery_decodes : decodeMessage ceQueryBytes = .ok ceQuery :=
  C04_roundtrip _ _ (by decide) (by decide)
theorem xseQuery_decodes : decodeMessage xseQueryBytes = .ok xseQuery :=
  C04_roundtrip _ _ (by decide) (by decide)

theorem ce_local : (resolveLocal (RECURSION_LIMIT + 1) (so_ctx Ex.zones) (Ex.qA Ex.nCE)).2 =
    .ok (.done (.authoritative [Ex.rrC, Ex.rrW] Ex.soaRRE)) :=
  Ex.run_c (so_ctx Ex.zones) rfl rfl

theorem xse_local : (resolveLocal (RECURSION_LIMIT + 1) (so_ctx Ex.zones) (Ex.qA Ex.nXSE)).2 =
    .ok (.delegation [Ex.rrS] (some Ex.soaRRE) { hostnames := [Ex.nNO], name := Ex.nSE }) := by
  show (resolveLocal (32 + 1) _ _).2 = _
  rw [resolveLocal_succ,
    localStep_zone_delegation_auth (soa := Ex.soaRRE) (by decide) (by decide) Ex.resolve_xs rfl]
  rfl

theorem ce_reply : handleRawMessage true (authOnlyResolver Ex.zones) ceQueryBytes =
    some (srvReplyOf true ceQuery (.ok (.authoritative [Ex.rrC, Ex.rrW] Ex.soaRRE))) := by
  rw [srv_handle_query ceQuery_decodes rfl rfl,
    srv_rabr_question true _ _ _ (srv_triage_one_known rfl (by decide)),
    so_authOnly_eq, so_resolveAuthOnly_snd, ce_local]
  rfl

theorem xse_reply : handleRawMessage true (authOnlyResolver Ex.zones) xseQueryBytes =
    some (srvReplyOf true xseQuery (.ok (.authoritative [Ex.rrS] Ex.soaRRE))) := by
  rw [srv_handle_query xseQuery_decodes rfl rfl,
    srv_rabr_question true _ _ _ (srv_triage_one_known rfl (by decide)),
    so_authOnly_eq, so_resolveAuthOnly_snd, xse_local]
  rfl

theorem ce_not_referral : ∀ rs s d,
    (resolveLocal (RECURSION_LIMIT + 1) (so_ctx Ex.zones) (Ex.qA Ex.nCE)).2 ≠ .ok (.delegation rs s d) := by
  intro rs s d hc; rw [ce_local] at hc; cases hc

theorem ce_result : authOnlyResolver Ex.zones (Ex.qA Ex.nCE) false =
    .ok (.authoritative [Ex.rrC, Ex.rrW] Ex.soaRRE) := by
  rw [so_authOnly_eq, so_resolveAuthOnly_snd, ce_local]; rfl

/-- the 93-octet reply to `c.e. A`: `85 00` = QR AA RD, RA clear, NOERROR; 1 question, 2 answers
    (`c.e. CNAME w.e.`, `w.e. A 0.0.0.1`, owners compressed), 1 authority record (the SOA of `e.`) -/
def ceReplyBytes : List UInt8 :=
  [18, 52, 133, 0, 0, 1, 0, 2, 0, 1, 0, 0, 1, 99, 1, 101, 0, 0, 1, 0, 1, 192, 12, 0, 5, 0, 1, 0, 0, 1, 44,
   0, 5, 1, 119, 1, 101, 0, 192, 33, 0, 1, 0, 1, 0, 0, 1, 44, 0, 4, 0, 0, 0, 1, 1, 101, 0, 0, 6, 0, 1, 0,
   0, 0, 5, 0, 26, 1, 101, 0, 1, 101, 0, 0, 0, 0, 1, 0, 0, 0, 2, 0, 0, 0, 3, 0, 0, 0, 4, 0, 0, 0, 5]

/-- the 82-octet reply to `x.s.e. A`: AA set, ONE ANSWER `s.e. NS n.o.`, the SOA of `e.` as authority -/
def xseReplyBytes : List UInt8 :=
  [18, 52, 133, 0, 0, 1, 0, 1, 0, 1, 0, 0, 1, 120, 1, 115, 1, 101, 0, 0, 1, 0, 1, 1, 115, 1, 101, 0, 0, 2,
   0, 1, 0, 0, 1, 44, 0, 5, 1, 110, 1, 111, 0, 1, 101, 0, 0, 6, 0, 1, 0, 0, 0, 5, 0, 26, 1, 101, 0, 1, 101,
   0, 0, 0, 0, 1, 0, 0, 0, 2, 0, 0, 0, 3, 0, 0, 0, 4, 0, 0, 0, 5]

end C09ex

/-- the hypotheses of `C09_answer_owners_auth_only` hold for `c.e. A` over `Ex.zones`, and the
    answer section it speaks about is `c.e. CNAME w.e.`, `w.e. A 1`. -/
example : ∃ r, handleRawMessage true (authOnlyResolver Ex.zones) C09ex.ceQueryBytes = some r ∧
    r.answers = [Ex.rrC, Ex.rrW] ∧ ChainShaped Ex.nCE RT_A r.answers ∧
    ∀ rr ∈ r.answers, rr.name = Ex.nCE ∨ ∃ c ∈ r.answers, cnameTarget c = some rr.name := by
  have hnd := C09ex.ce_not_referral
  exact ⟨_, C09ex.ce_reply, rfl,
    C09_answer_owners_auth_only Ex.zones Ex.zones_answers_typed _ _ _ (Ex.qA Ex.nCE)
      C09ex.ceQuery_decodes rfl (by decide) (by decide) C09ex.ce_reply hnd,
    C09_answer_owner_on_chain Ex.zones Ex.zones_answers_typed _ _ _ (Ex.qA Ex.nCE)
      C09ex.ceQuery_decodes rfl (by decide) (by decide) C09ex.ce_reply hnd⟩

/-- … and on the wire (`C09_answer_owners_on_the_wire`, all hypotheses discharged): the datagram
    sent for `c.e. A` and the chain read back from it. -/
example : serveUdp true (authOnlyResolver Ex.zones) C09ex.ceQueryBytes = some C09ex.ceReplyBytes ∧
    ∃ m', decodeMessage C09ex.ceReplyBytes = .ok m' ∧ ChainShaped Ex.nCE RT_A m'.answers ∧
      ∀ rr ∈ m'.answers, rr.name = Ex.nCE ∨ ∃ c ∈ m'.answers, cnameTarget c = some rr.name :=
  C09_answer_owners_on_the_wire Ex.zones Ex.zones_answers_typed _ _ _ (Ex.qA Ex.nCE) _
    C09ex.ceQuery_decodes rfl (by decide) (by decide) C09ex.ce_reply C09ex.ce_not_referral
    (by rw [C09ex.ce_result]; unfold srvResultWF; decide) (by decide) (by decide)

/-- **F10, concretely.**  `x.s.e. A` to the authoritative-only server over `Ex.zones`: the local
    resolution is a referral, and the reply says AA with `s.e. NS n.o.` in the ANSWER section —
    a record owned neither by the question name `x.s.e.` nor by the target of any alias record
    (there is none), and not of the asked type. -/
example : ∃ r, handleRawMessage true (authOnlyResolver Ex.zones) C09ex.xseQueryBytes = some r ∧
    r.answers = [Ex.rrS] ∧ r.authority = [Ex.soaRRE] ∧ r.header.isAuthoritative = true ∧
    r.header.rcode = RCODE_NOERROR ∧
    Ex.rrS.name ≠ Ex.nXSE ∧ (∀ c ∈ r.answers, cnameTarget c = none) ∧ Ex.rrS.rtype ≠ RT_A ∧
    ¬ ChainShaped Ex.nXSE RT_A r.answers :=
  ⟨_, C09ex.xse_reply, rfl, rfl, rfl, rfl, by decide, by decide, by decide,
   C09_referral_breaks_chain Ex.zones Ex.zones_answers_typed _ _ _ (Ex.qA Ex.nXSE)
     C09ex.xseQuery_decodes rfl rfl (by decide) C09ex.xse_reply _ _ _ C09ex.xse_local (.inl (by decide))⟩

/-- F10 on the wire: the datagram sent for `x.s.e. A` reads back as that reply — AA, and the
    delegation's NS record as the one ANSWER. -/
example : serveUdp true (authOnlyResolver Ex.zones) C09ex.xseQueryBytes = some C09ex.xseReplyBytes ∧
    ∃ m', decodeMessage C09ex.xseReplyBytes = .ok m' ∧ m'.answers = [Ex.rrS] ∧
      m'.header.isAuthoritative = true ∧ ¬ ChainShaped Ex.nXSE RT_A m'.answers := by
  have he : encodeMessage (srvReplyOf true C09ex.xseQuery (.ok (.authoritative [Ex.rrS] Ex.soaRRE))) =
      .ok C09ex.xseReplyBytes := by decide
  refine ⟨(C09_frames_of_fitting_reply true _ _ _ _ C09ex.xse_reply he).1 (by decide), _,
    C04_roundtrip _ _ (by decide) he, rfl, rfl, ?_⟩
  exact C09_referral_breaks_chain Ex.zones Ex.zones_answers_typed _ _ _ (Ex.qA Ex.nXSE)
    C09ex.xseQuery_decodes rfl rfl (by decide) C09ex.xse_reply _ _ _ C09ex.xse_local (.inl (by decide))

/-- the hypotheses of `C09_referral_is_the_exception` / `C09_referral_owner_off_chain` are satisfiable
    (same query): the delegation point `s.e.` is not the question name. -/
example : ∃ r, handleRawMessage true (authOnlyResolver Ex.zones) C09ex.xseQueryBytes = some r ∧
    r.answers ≠ [] ∧
    ∀ rr ∈ r.answers, ¬ (rr.name = Ex.nXSE ∨ ∃ c ∈ r.answers, cnameTarget c = some rr.name) :=
  ⟨_, C09ex.xse_reply,
   C09_referral_owner_off_chain Ex.zones Ex.zones_answers_typed _ _ _ (Ex.qA Ex.nXSE)
     C09ex.xseQuery_decodes rfl rfl (by decide) C09ex.xse_reply _ _ _ C09ex.xse_local (by decide)⟩

namespace C09ex

/-- `c.e. CNAME IN` -/
def ceCnameQueryBytes : List UInt8 :=
  [0x12, 0x34, 1, 0, 0, 1, 0, 0, 0, 0, 0, 0, 1, 99, 1, 101, 0, 0, 5, 0, 1]
def ceCnameQuery : Message :=
  { header := ⟨0x1234, false, 0, false, false, true, false, 0⟩
    questions := [⟨Ex.nCE, RT_CNAME, 1⟩], answers := [], authority := [], additional := [] }
/-- `h. A IN` — a name of the SOA-less (hosts-like) root zone -/
def hQueryBytes : List UInt8 := [0x12, 0x34, 1, 0, 0, 1, 0, 0, 0, 0, 0, 0, 1, 104, 0, 0, 1, 0, 1]
def hQuery : Message :=
  { header := ⟨0x1234, false, 0, false, false, true, false, 0⟩
    questions := [Ex.qA Ex.nH], answers := [], authority := [], additional := [] }

theorem ceCnameQuery_decodes : decodeMessage ceCnameQueryBytes = .ok ceCnameQuery :=
  C04_roundtrip _ _ (by decide) (by decide)
theorem hQuery_decodes : decodeMessage hQueryBytes = .ok hQuery :=
  C04_roundtrip _ _ (by decide) (by decide)

theorem resolve_c_cname : Ex.zones.resolve Ex.nCE RT_CNAME = some (Ex.zoneE, some (.answer [Ex.rrC])) := by
  simp only [Zones.resolve, Zone.resolve, ZNode.resolve_eq_rev]; rfl

theorem ceCname_local : (resolveLocal (RECURSION_LIMIT + 1) (so_ctx Ex.zones) ⟨Ex.nCE, RT_CNAME, 1⟩).2 =
    .ok (.done (.authoritative [Ex.rrC] Ex.soaRRE)) := by
  show (resolveLocal (32 + 1) _ _).2 = _
  rw [resolveLocal_succ,
    localStep_zone_answer_auth (soa := Ex.soaRRE) (by decide) (by decide) resolve_c_cname rfl]

theorem h_local : (resolveLocal (RECURSION_LIMIT + 1) (so_ctx Ex.zones) (Ex.qA Ex.nH)).2 =
    .ok (.done (.nonAuthoritative [Ex.rrH] none)) := by
  show (resolveLocal (32 + 1) _ _).2 = _
  rw [resolveLocal_succ,
    localStep_zone_answer_nonauth (by decide) (by decide) Ex.resolve_h rfl (by decide) (by simp)]

theorem ceCname_reply : handleRawMessage true (authOnlyResolver Ex.zones) ceCnameQueryBytes =
    some (srvReplyOf true ceCnameQuery (.ok (.authoritative [Ex.rrC] Ex.soaRRE))) := by
  rw [srv_handle_query ceCnameQuery_decodes rfl rfl,
    srv_rabr_question true _ _ _ (srv_triage_one_known rfl (by decide)),
    so_authOnly_eq, so_resolveAuthOnly_snd, ceCname_local]
  rfl

theorem h_reply : handleRawMessage true (authOnlyResolver Ex.zones) hQueryBytes =
    some (srvReplyOf true hQuery (.ok (.nonAuthoritative [Ex.rrH] none))) := by
  rw [srv_handle_query hQuery_decodes rfl rfl,
    srv_rabr_question true _ _ _ (srv_triage_one_known rfl (by decide)),
    so_authOnly_eq, so_resolveAuthOnly_snd, h_local]
  rfl

end C09ex

/-- `C09_cname_question_owners` on `c.e. CNAME`: the alias record itself, owned by the question
    name, and nothing of its target. -/
example : ∃ r, handleRawMessage true (authOnlyResolver Ex.zones) C09ex.ceCnameQueryBytes = some r ∧
    r.answers = [Ex.rrC] ∧ ∀ rr ∈ r.answers, rr.name = Ex.nCE :=
  ⟨_, C09ex.ceCname_reply, rfl,
   C09_cname_question_owners Ex.zones _ _ _ ⟨Ex.nCE, RT_CNAME, 1⟩ C09ex.ceCnameQuery_decodes rfl rfl
     C09ex.ceCname_reply (by intro rs s d hc; rw [C09ex.ceCname_local] at hc; cases hc)⟩

/-- the NON-authoritative outcome does occur in authoritative-only mode (a name of the SOA-less
    zone: AA clear, no authority record), and `C09_answer_owners_by_outcome` covers it. -/
example : ∃ r, handleRawMessage true (authOnlyResolver Ex.zones) C09ex.hQueryBytes = some r ∧
    r.answers = [Ex.rrH] ∧ r.authority = [] ∧ r.header.isAuthoritative = false ∧
    r.header.rcode = RCODE_NOERROR ∧ ChainShaped Ex.nH RT_A r.answers :=
  ⟨_, C09ex.h_reply, rfl, rfl, rfl, rfl,
   (C09_answer_owners_by_outcome Ex.zones Ex.zones_answers_typed _ _ _ (Ex.qA Ex.nH)
     C09ex.hQuery_decodes rfl rfl (by decide) (by decide) (by decide) C09ex.h_reply
     (by intro rs s d hc; rw [C09ex.h_local] at hc; cases hc)).1⟩

/-- `so_built` / `Zones.Configured` are inhabited: an empty zone `e.` loaded as the hosts zone. -/
example : so_built (Zone.new Ex.nE none) := ⟨Ex.nE, none, [], by decide, rfl⟩
example : ∃ cfg, loadConfiguration [] (some (Zone.new Ex.nE none)) = some cfg ∧ Zones.Configured cfg :=
  ⟨_, rfl, so_load_configured (zoneFiles := []) (hosts := some (Zone.new Ex.nE none))
    (by intro z hz; cases hz) (by intro z hz; cases hz; exact ⟨Ex.nE, none, [], by decide, rfl⟩) rfl⟩

end Resolved
