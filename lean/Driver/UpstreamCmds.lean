/-
  Upstream filter commands (C06).
    nsresp   none | answer <rrs> <soa-rr or -> | cname <rrs> <name> | delegation <rrs> <names,sorted> <name>
-/
import Driver.Base
import Driver.ZoneCmds
import Resolved.Spec.UpstreamSpec

namespace Resolved.Driver

open Resolved Resolved.Codec

def showNames (ns : List Name) : String :=
  if ns.isEmpty then "-" else ",".intercalate (sortStrings (ns.map showName))

def showNsResp : Option NameserverResponse → String
  | none => "none"
  | some (.answer rrs soa) => "answer " ++ showRRs rrs ++ " " ++ (match soa with | some s => showRR s | none => "-")
  | some (.cname rrs c) => "cname " ++ showRRs rrs ++ " " ++ showName c
  | some (.delegation rrs hs n) => "delegation " ++ showRRs rrs ++ " " ++ showNames hs ++ " " ++ showName n

def parseNsResp (s : String) : Option (Option NameserverResponse) :=
  if s = "none" then some none
  else
    match s.splitOn " " with
    | ["answer", rrs, soa] =>
      match parseRRs rrs, (if soa = "-" then some none else (parseRR soa).map some) with
      | some rrs, some soa => some (some (.answer rrs soa))
      | _, _ => none
    | ["cname", rrs, c] =>
      match parseRRs rrs, parseName c with
      | some rrs, some c => some (some (.cname rrs c))
      | _, _ => none
    | ["delegation", rrs, hs, n] =>
      match parseRRs rrs, (if hs = "-" then some [] else (hs.splitOn ",").mapM parseName), parseName n with
      | some rrs, some hs, some n => some (some (.delegation rrs hs n))
      | _, _, _ => none
    | _ => none

def nsRespTag : Option NameserverResponse → String
  | none => "none"
  | some (.answer [] _) => "nodata"
  | some (.answer _ _) => "answer"
  | some (.cname _ _) => "cname"
  | some (.delegation _ _ _) => "delegation"

def cmdValidate (q mc msg impl : String) : Result :=
  match parseQuestion q, mc.toNat?, parseMessage msg with
  | some q, some mc, some m =>
    let r := validateNameserverResponse q m mc
    let o := if impl == "hang" then "fail:C10:upstream-alias-loop-hangs,fail:C08:filter-does-not-terminate,fail:C06:filter-does-not-terminate"
      else if impl == "panic" then "fail:C08:filter-panicked,fail:C06:filter-panicked"
      else match parseNsResp impl with
      | none => "fail:C06:unparsable"
      | some out => match USpec.checkValidated q mc m out with
        | none => "ok"
        | some why => "fail:C06:" ++ why
    { model := showNsResp r, oracle := o, tags := nsRespTag r }
  | _, _, _ => bad "args"

/-- C06 oracle for header matching: a reply that differs in ID, QR, opcode, TC, rcode ∉ {0,3} or
    question must be rejected (and one that agrees in all of them accepted). -/
def cmdMatches (req resp impl : String) : Result :=
  match parseMessage req, parseMessage resp with
  | some a, some b =>
    let r := responseMatchesRequest a b
    let spec := a.header.id == b.header.id && b.header.isResponse && a.header.opcode == b.header.opcode
                && !b.header.isTruncated && (b.header.rcode == 0 || b.header.rcode == 3) && a.questions == b.questions
    { model := b2s r, oracle := if impl == b2s spec then "ok"
        else if impl == "panic" || impl == "hang" then "fail:C08:reply-check-panicked,fail:C06:reply-check-panicked"
        else "fail:C06:header-mismatch-not-discarded",
      tags := if r then "match" else "mismatch" }
  | _, _ => bad "args"

end Resolved.Driver
