/-
  Zone-text commands of the line protocol (C11 / C13 / C17).
    text      lower-case hex of the UTF-8 octets of the zone-file text ("-" = empty)
    zonedump  <apex>!<soa fields or ->!R:<rrs sorted>!W:<rrs sorted>     (rr format of Codec)
    results   ok <zonedump> | err <Constructor> | panic
-/
import Driver.Base
import Driver.ZoneCmds
import Resolved.Model.ZoneText
import Resolved.Spec.ZoneTextSpec

namespace Resolved.Driver

open Resolved Resolved.Codec Resolved.ZoneText

/-- UTF-8 decoder for the driver input (the harness only sends valid UTF-8: it comes out of a Rust `&str`). -/
def utf8DecodeAux : List UInt8 → List Char → Option (List Char)
  | [], acc => some acc.reverse
  | b0 :: rest, acc =>
    let n0 := b0.toNat
    if n0 < 0x80 then utf8DecodeAux rest (Char.ofNat n0 :: acc)
    else if n0 < 0xC0 then none
    else if n0 < 0xE0 then
      match rest with
      | b1 :: rest => utf8DecodeAux rest (Char.ofNat ((n0 - 0xC0) * 64 + (b1.toNat - 0x80)) :: acc)
      | _ => none
    else if n0 < 0xF0 then
      match rest with
      | b1 :: b2 :: rest =>
        utf8DecodeAux rest (Char.ofNat (((n0 - 0xE0) * 64 + (b1.toNat - 0x80)) * 64 + (b2.toNat - 0x80)) :: acc)
      | _ => none
    else
      match rest with
      | b1 :: b2 :: b3 :: rest =>
        utf8DecodeAux rest
          (Char.ofNat ((((n0 - 0xF0) * 64 + (b1.toNat - 0x80)) * 64 + (b2.toNat - 0x80)) * 64 + (b3.toNat - 0x80)) :: acc)
      | _ => none

def textOfHex (hex : String) : Option (List Char) :=
  (bytesOfHex hex).bind (fun bs => utf8DecodeAux bs [])

def hexOfText (cs : List Char) : String := hexOfBytes (IpText.utf8Encode cs)

def showZtError : ZoneText.Error → String
  | .tokeniserUnexpected => "TokeniserUnexpected"
  | .tokeniserUnexpectedEscape => "TokeniserUnexpectedEscape"
  | .includeNotSupported => "IncludeNotSupported"
  | .multipleSOA => "MultipleSOA"
  | .wildcardSOA => "WildcardSOA"
  | .notSubdomainOfApex => "NotSubdomainOfApex"
  | .unexpected => "Unexpected"
  | .expectedU32 => "ExpectedU32"
  | .expectedOrigin => "ExpectedOrigin"
  | .expectedDomainName => "ExpectedDomainName"
  | .wrongLen => "WrongLen"
  | .missingType => "MissingType"
  | .missingTTL => "MissingTTL"
  | .missingDomainName => "MissingDomainName"

def showOwnerRecords (m : List (Name × List ZoneRecord)) : String :=
  let rrs := m.flatMap (fun (n, zrs) => zrs.map (fun zr => showRR (zr.toRR n)))
  if rrs.isEmpty then "-" else ";".intercalate (sortStrings rrs)

def showZoneDump (z : Zone) : String :=
  showName z.apex ++ "!" ++ (match z.soa with | some s => showFields s.toFields | none => "-")
    ++ "!R:" ++ showOwnerRecords z.allRecords ++ "!W:" ++ showOwnerRecords z.allWildcardRecords

def showDResult : DResult → String
  | .ok z => "ok " ++ showZoneDump z
  | .err e => "err " ++ showZtError e
  | .panic => "panic"
  | .outOfFuel => "out-of-fuel"

def dresultTag : DResult → String
  | .ok z =>
    "ok" ++ (if z.soa.isSome then "/auth" else "/nonauth")
      ++ (if z.allWildcardRecords.isEmpty then "" else "/wild")
      ++ (if z.allRecords.isEmpty then "/empty" else "")
  | .err e => "err/" ++ showZtError e
  | .panic => "panic"
  | .outOfFuel => "out-of-fuel"

/-- C17 clause shared by all zone-text commands. -/
def oracleC17 (impl : String) : Option String :=
  if impl = "panic" || impl.startsWith "panic" then some "fail:C17:panic"
  else if impl = "abort" then some "fail:C17:process-aborted-stack-or-allocation"
  else none

/-- `ztext.parse <hex-text>`: Impl ≡ Model on arbitrary text; oracle = C17 only. -/
def cmdZtextParse (hex impl : String) : Result :=
  match textOfHex hex with
  | none => bad "utf8"
  | some cs =>
    let r := ZoneText.deserialise cs
    { model := showDResult r,
      oracle := (oracleC17 impl).getD (match r with | .panic => "fail:C17:model-panic" | .outOfFuel => "fail:C17:model-fuel" | _ => "ok"),
      tags := dresultTag r }

/-! ## serialise / round trip (C13) -/

/-- split at every '\n' (like `str::split('\n')`). -/
def splitLines (cs : List Char) : List (List Char) :=
  let rec go : List Char → List Char → List (List Char) → List (List Char)
    | [], cur, acc => (cur.reverse :: acc).reverse
    | c :: rest, cur, acc => if c = '\n' then go rest [] (cur.reverse :: acc) else go rest (c :: cur) acc
  go cs [] []

/-- the serialised text with the lines of every block (maximal run of non-empty lines) sorted —
    mirror of `canonical_text` in harness/src/streams/ztext.rs. -/
def canonicalText (cs : List Char) : String :=
  let lines := (splitLines cs).map String.ofList
  -- the text ends with '\n' (or is empty): the last piece of the split is the empty remainder
  let lines := match lines.reverse with | "" :: r => r.reverse | _ => lines
  let rec go : List String → List String → List String → List String
    | [], block, out => out ++ sortStrings block
    | l :: rest, block, out =>
      if l.isEmpty then go rest [] (out ++ sortStrings block ++ [""]) else go rest (block ++ [l]) out
  String.join ((go lines [] []).map (· ++ "\n"))

def hexOfString (s : String) : String := hexOfBytes s.toUTF8.toList

/-- owners (of ordinary records) that `Zone::serialise` writes with a leading `*` label: the
    situation of known finding C13-K1. -/
def starOwners (z : Zone) : List Name :=
  (z.allRecords.filter (fun p => p.2.any (fun zr => zr.rtype != RT_SOA))).filterMap (fun p =>
    match p.1.labels with
    | l :: _ => if l == [42] && p.1 != z.apex then some p.1 else none
    | [] => none)

def splitDump (s : String) : Option (String × String × List String × List String) :=
  match s.splitOn "!" with
  | [apex, soa, r, w] =>
    let lst (x : String) (pre : String) : List String :=
      let body := (x.drop pre.length).toString
      if body = "-" then [] else body.splitOn ";"
    some (apex, soa, lst r "R:", lst w "W:")
  | _ => none

/-- an rr text with its first label removed (the record `*.rest` re-read as wildcard of `rest`). -/
def dropFirstLabel (rrText : String) : String :=
  match parseRR rrText with
  | some rr =>
    match rr.name.labels with
    | l :: ls => showRR { rr with name := ⟨ls, rr.name.len - (l.length + 1)⟩ }
    | [] => rrText
  | none => rrText

def ownerOfRRText (rrText : String) : String := ((rrText.splitOn "|").head?).getD ""

/-- C13 verdict from the dump before (`d1`) and the result after (`res2`, `eq`) the round trip;
    `stars` = the owners written with a leading `*` label. -/
def oracleRoundtrip (d1 res2 eq : String) (stars : List Name) : String :=
  if res2 = "ok " ++ d1 ∧ eq = "1" then "ok"
  else if !res2.startsWith "ok " then
    if res2.startsWith "panic" then "fail:C17:panic" else "fail:C13:reread-rejected"
  else
    let d2 := (res2.drop 3).toString
    match splitDump d1, splitDump d2 with
    | some (a1, s1, r1, w1), some (a2, s2, r2, w2) =>
      if a1 ≠ a2 then "fail:C13:apex-differs"
      else if s1 ≠ s2 then "fail:C13:soa-differs"
      else
        let starNames := stars.map showName
        let moved := (r1.filter (fun t => starNames.contains (ownerOfRRText t))).map dropFirstLabel
        let r1' := r1.filter (fun t => !starNames.contains (ownerOfRRText t))
        let w1' := sortStrings ((w1 ++ moved).eraseDups)
        if !stars.isEmpty ∧ r2 = r1' ∧ sortStrings w2 = w1' then "fail:C13:K1-star-label-normal-owner"
        else if r1 ≠ r2 then "fail:C13:records-differ"
        else if w1 ≠ w2 then "fail:C13:wildcards-differ"
        else "fail:C13:not-equal"
    | _, _ => "fail:C13:unparsable-dump"

/-- `Zone::serialise` then `Zone::deserialise` on the model.  The order of the lines inside one owner
    block comes out of hash maps in the Rust, so the implementation's text (`implHex`) is accepted
    when it equals the model's text up to that order (`canonicalText`); in that case it is echoed and
    the model re-reads *it* (so that which of two bad lines is reported first cannot differ).
    Otherwise the model's own text is printed (a model mismatch) and re-read. -/
def modelReread (z : Zone) (implHex : String) : String × DResult :=
  let text := ZoneText.serialise z
  match textOfHex implHex with
  | some implText =>
    if canonicalText implText = canonicalText text then (implHex, ZoneText.deserialise implText)
    else (hexOfText text, ZoneText.deserialise text)
  | none => (hexOfText text, ZoneText.deserialise text)

/-- `ztext.roundtrip <hex-text>`; impl = `res1[#hex#res2#eq]`. -/
def cmdZtextRoundtrip (hex impl : String) : Result :=
  match textOfHex hex with
  | none => bad "utf8"
  | some cs =>
    match ZoneText.deserialise cs with
    | .ok z =>
      let d1 := showZoneDump z
      let parts := impl.splitOn "#"
      let (h, r2) := modelReread z (parts.getD 1 "")
      let eq := if showDResult r2 = "ok " ++ d1 then "1" else "0"
      let oracle :=
        match parts with
        | [res1, _, res2, e] =>
          if res1.startsWith "ok " then oracleRoundtrip (res1.drop 3).toString res2 e (starOwners z)
          else (oracleC17 res1).getD "ok"
        | [res1] => (oracleC17 res1).getD "ok"
        | _ => "fail:C17:panic"
      { model := "ok " ++ d1 ++ "#" ++ h ++ "#" ++ showDResult r2 ++ "#" ++ eq, oracle,
        tags := dresultTag (.ok z) ++ (if (starOwners z).isEmpty then "" else "/star") }
    | r => { model := showDResult r, oracle := (oracleC17 impl).getD "ok", tags := dresultTag r }

/-- the precondition of C13 for zones built through the insertion API. -/
def labelAsciiNoDot (l : Label) : Bool := l.all (fun b => b.toNat < 128 && b != 46)

def nameWF (n : Name) : Bool :=
  n.labels.all labelAsciiNoDot && n.labels.all (fun l => l.head? != some 42)

def fieldWF : FieldVal → Bool
  | .name n => nameWF n
  | _ => true

def knownType (code : Nat) : Bool := (ZoneText.lookupByCode ZoneText.rtypeNames code).isSome

def specWF (zs : ZoneSpec) : Bool :=
  nameWF zs.apex
    && (match zs.soa with | some s => nameWF s.mname && nameWF s.rname | none => zs.apex == Name.root)
    && zs.ops.all (fun op =>
      let rr := match op with | .ins rr => rr | .wild rr => rr
      nameWF rr.name && rr.fields.all fieldWF && knownType rr.rtype && rr.rtype != RT_SOA)

/-- `ztext.api <zonespec>`; impl = `dump1#hex#res2#eq`. -/
def cmdZtextApi (zspec impl : String) : Result :=
  match parseZoneSpec zspec with
  | none => bad "zonespec"
  | some zs =>
    match buildZone zs with
    | none => { model := "panic", oracle := "fail:C17:insert-panic", tags := "panic" }
    | some z =>
      let d1 := showZoneDump z
      let (h, r2) := modelReread z ((impl.splitOn "#").getD 1 "")
      let eq := if showDResult r2 = "ok " ++ d1 then "1" else "0"
      let wf := specWF zs
      let oracle :=
        if !wf then "ok"
        else
          match impl.splitOn "#" with
          | [dump1, _, res2, e] => oracleRoundtrip dump1 res2 e (starOwners z)
          | _ => "fail:C17:panic"
      { model := d1 ++ "#" ++ h ++ "#" ++ showDResult r2 ++ "#" ++ eq, oracle,
        tags := (if wf then "wf" else "nonwf") ++ "/" ++ dresultTag r2 }

/-- `ztext.serialise <zonespec>`; impl = hex of the serialised text (accepted up to the order of the
    lines inside a block). -/
def cmdZtextSerialise (zspec impl : String) : Result :=
  match parseZoneSpec zspec with
  | none => bad "zonespec"
  | some zs =>
    match buildZone zs with
    | none => { model := "panic", oracle := "fail:C17:insert-panic", tags := "panic" }
    | some z => { model := (modelReread z impl).1, tags := if z.soa.isSome then "auth" else "nonauth" }

/-! ## rendered directive lists (C11) -/

open ZTSpec in
def parseNameRef (s : String) : Option NameRef :=
  if s = "@" then some .at
  else if s.startsWith "A" then (parseLabels (s.drop 1).toString).map .abs
  else if s.startsWith "L" then (parseLabels (s.drop 1).toString).map .rel
  else none

open ZTSpec in
def parseOwnerRef (s : String) : Option (Option OwnerRef) :=
  if s = "-" then some none
  else if s = "*" then some (some .star)
  else if s.startsWith "N" then (parseNameRef (s.drop 1).toString).map (fun n => some (.name n))
  else if s.startsWith "W" then (parseNameRef (s.drop 1).toString).map (fun n => some (.wild n))
  else none

def optNat (s : String) : Option (Option Nat) :=
  if s = "-" then some none else s.toNat?.map some

open ZTSpec in
def parseRField (s : String) : Option RField :=
  match s.splitOn "=" with
  | ["n", n] => (parseNameRef n).map .name
  | ["h", n] => n.toNat?.map .u16
  | ["w", n] => n.toNat?.map .u32
  | ["a", n] => n.toNat?.map .a
  | ["q", gs] => ((gs.splitOn "_").mapM String.toNat?).map .aaaa
  | ["o", h] => (bytesOfHex h).map .octets
  | _ => none

def optHexChars (s : String) : Option (Option (List Char)) :=
  if s = "-" then some none
  else if s.startsWith "=" then
    let h := (s.drop 1).toString
    if h.isEmpty then some (some []) else ((bytesOfHexChars h.toList).bind (fun bs => utf8DecodeAux bs [])).map some
  else none

open ZTSpec in
def parseDirective (s : String) : Option Directive :=
  match s.splitOn "," with
  | ["O", n] => (parseNameRef n).map .origin
  | ["I", path, o] =>
    match bytesOfHex path, (if o = "-" then some none else (parseNameRef o).map some) with
    | some p, some o => some (.include p o)
    | _, _ => none
  | ["R", owner, ttl, cls, rtype, rdata] =>
    match parseOwnerRef owner, optNat ttl, (if cls = "-" then some none else (bytesOfHex cls).map some),
          rtype.toNat?, (if rdata = "-" then some [] else (rdata.splitOn "+").mapM parseRField) with
    | some owner, some ttl, some cls, some rtype, some rdata => some (.record { owner, ttl, cls, rtype, rdata })
    | _, _, _, _, _ => none
  | ["B", c] => (optHexChars c).map .blank
  | _ => none

open ZTSpec in
def parseTokVar (s : String) : Option TokVar :=
  match s.toList with
  | q :: pat =>
    (pat.mapM (fun c => if c = 'b' then some OForm.bare else if c = 'x' then some .backslash
                         else if c = 'd' then some .decimal else none)).map
      (fun p => { quoted := q = '1', pattern := p })
  | [] => none

def bit (c : Char) : Bool := c = '1'

open ZTSpec in
def parseLineVar (s : String) : Option LineVar :=
  match s.splitOn "," with
  | [flags, openAt, closeAt, nlMask, seps, toks, comment] =>
    match flags.toList, openAt.toNat?, closeAt.toNat?, nlMask.toNat?,
          (if toks = "-" then some [] else (toks.splitOn ".").mapM parseTokVar), optHexChars comment with
    | [cf, tn, af, nc], some openAt, some closeAt, some nlMask, some toks, some comment =>
      some { classFirst := bit cf, typeNumeric := bit tn, aaaaFull := bit af, nlComment := bit nc,
             openAt, closeAt, nlMask, toks, comment,
             seps := if seps = "-" then [] else seps.toList.map (fun c => c.toNat - 48) }
    | _, _, _, _, _, _ => none
  | _ => none

open ZTSpec in
def parseFileVar (s : String) : Option FileVar :=
  match s.splitOn " " with
  | flags :: lines =>
    match flags.toList, (lines.filter (· ≠ "")).mapM parseLineVar with
    | [crlf, fin], some lines => some { crlf := bit crlf, finalNewline := bit fin, lines }
    | _, _ => none
  | [] => none

def parseDirectives (s : String) : Option (List ZTSpec.Directive) :=
  if s = "-" then some [] else (s.splitOn " ").mapM parseDirective

def showFlat (rs : List ZTSpec.FlatRecord) : String :=
  let rrs := rs.map (fun r => showRR { name := r.owner, rtype := r.rtype, fields := r.fields, rclass := 1, ttl := r.ttl })
  if rrs.isEmpty then "-" else ";".intercalate (sortStrings rrs)

def showMeaning (m : ZTSpec.Meaning) : String :=
  showName m.apex ++ "!" ++ (match m.soa with | some s => showFields s.toFields | none => "-")
    ++ "!R:" ++ showFlat m.records ++ "!W:" ++ showFlat m.wildcards

def showSpecError : ZTSpec.SpecError → String
  | .includeUnsupported => "include"
  | .classNotIN => "class-not-IN"
  | .multipleSOA => "multiple-SOA"
  | .wildcardSOA => "wildcard-SOA"
  | .outsideApex => "outside-apex"
  | .noOrigin => "no-origin"
  | .noTTL => "no-TTL"
  | .noOwner => "no-owner"
  | .badName => "bad-name"
  | .badRdata => "bad-rdata"

/-- C11 verdict: the implementation's result against `denote`.  Under `Unambiguous` a difference is
    a failure of the claimed property (the known finding K1 gets its own verdict); under the relaxed
    condition only (a `.` inside a label written `\\.`, the relative name `\\@`) a difference gets the
    verdict of candidate finding K2. -/
def oracleDenote (ds : List ZTSpec.Directive) (v : ZTSpec.FileVar) (impl : String) (modelOut : String) :
    String × String :=
  let strict := ZTSpec.Unambiguous ds
  if !strict && !ZTSpec.UnambiguousRelaxed ds then ("ok", "ambiguous")
  else
    -- the known findings K1 / K2 are specific misreadings which the model reproduces: a difference
    -- from `denote` carries their verdict only when the implementation does exactly what the model
    -- does on this text; any other difference in the same situation is reported under its own name
    let asModelled := impl == modelOut
    let k2 (verdict : String) : String :=
      if strict || !asModelled then verdict else "fail:C11:K2-escaped-special-in-name"
    let pre := if strict then "" else "relaxed/"
    match ZTSpec.denote ds with
    | .ok m =>
      let want := "ok " ++ showMeaning m
      if impl = want then ("ok", pre ++ "denote-ok")
      else if impl.startsWith "err " then (k2 "fail:C11:rejected-valid", pre ++ "denote-ok")
      else
        match splitDump (impl.drop 3).toString, splitDump (showMeaning m) with
        | some (a1, s1, r1, w1), some (a2, s2, r2, w2) =>
          (k2 (if a1 ≠ a2 then "fail:C11:apex-differs" else if s1 ≠ s2 then "fail:C11:soa-differs"
            else if r1 ≠ r2 then "fail:C11:records-differ" else if w1 ≠ w2 then "fail:C11:wildcards-differ"
            else "fail:C11:differs-from-denote"), pre ++ "denote-ok")
        | _, _ => ("fail:C11:unparsable-dump", pre ++ "denote-ok")
    | .error e =>
      if impl.startsWith "err " then ("ok", pre ++ "denote-err/" ++ showSpecError e)
      else if ZTSpec.isK1 ds v && asModelled then ("fail:C11:K1-class-as-owner", pre ++ "denote-err/" ++ showSpecError e)
      else (k2 ("fail:C11:accepted-invalid:" ++ showSpecError e), pre ++ "denote-err/" ++ showSpecError e)

/-- `ztext.rendered <directives> <variant> <hex-text>`: the text must be `render ds v` (cross-check of
    the two renderers), Impl ≡ Model on it, and the implementation's result must be `denote ds`. -/
def cmdZtextRendered (dsText vText hex impl : String) : Result :=
  match parseDirectives dsText, parseFileVar vText, textOfHex hex with
  | some ds, some v, some cs =>
    if ZTSpec.render ds v ≠ cs then
      { model := "render-mismatch " ++ hexOfText (ZTSpec.render ds v), oracle := "bad-op", tags := "render-mismatch" }
    else
      let r := ZoneText.deserialise cs
      let (o, t) := oracleDenote ds v impl (showDResult r)
      { model := showDResult r, oracle := (oracleC17 impl).getD o, tags := t ++ "/" ++ dresultTag r }
  | _, _, _ => bad "args"

/-- `ztext.glued <hex-original> <hex-glued>`: the second text is the first with trailing comments glued
    onto the token before them; Impl ≡ Model on it, and its meaning is that of the original. -/
def cmdZtextGlued (hexOrig hexGlued impl : String) : Result :=
  match textOfHex hexOrig, textOfHex hexGlued with
  | some o, some g =>
    let want := showDResult (ZoneText.deserialise o)
    let r := ZoneText.deserialise g
    let verdict :=
      if impl == want || !want.startsWith "ok" then "ok"
      else "fail:C11:comment-directly-after-a-token-changes-the-meaning"
    { model := showDResult r, oracle := (oracleC17 impl).getD verdict, tags := "glued/" ++ dresultTag r }
  | _, _ => bad "args"

end Resolved.Driver
