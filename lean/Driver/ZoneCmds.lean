/-
  Zone commands of the line protocol.
    soa       fields format: n:<mname>,n:<rname>,u32:..,u32:..,u32:..,u32:..,u32:..   or "-"
    zonespec  <apex>!<soa>!<op>!<op>…      op = i:<rr> | w:<rr>      (insert / insert_wildcard)
    zones     zonespec joined by '^'
    zresult   answer <rrs> | cname <name> <rr> | delegation <rrs> | nameerror | none | panic
-/
import Driver.Base
import Resolved.Spec.ZoneSpec

namespace Resolved.Driver

open Resolved Resolved.Codec

def parseSoa (s : String) : Option (Option SOA) :=
  if s = "-" then some none
  else
    match parseFields s with
    | some [.name mname, .name rname, .u32 serial, .u32 refresh, .u32 retry, .u32 expire, .u32 minimum] =>
      some (some { mname, rname, serial, refresh, retry, expire, minimum })
    | _ => none

inductive ZOp where
  | ins (rr : RR)
  | wild (rr : RR)
deriving Repr

def parseOp (s : String) : Option ZOp :=
  if s.startsWith "i:" then (parseRR (s.drop 2).toString).map .ins
  else if s.startsWith "w:" then (parseRR (s.drop 2).toString).map .wild
  else none

structure ZoneSpec where
  apex : Name
  soa : Option SOA
  ops : List ZOp

def parseZoneSpec (s : String) : Option ZoneSpec :=
  match s.splitOn "!" with
  | apex :: soa :: ops =>
    match parseName apex, parseSoa soa, (ops.filter (· ≠ "")).mapM parseOp with
    | some apex, some soa, some ops => some { apex, soa, ops }
    | _, _, _ => none
  | _ => none

/-- replay the construction on the model; `none` = a modelled panic. -/
def buildZone (zs : ZoneSpec) : Option Zone :=
  zs.ops.foldl (fun acc op =>
    match acc with
    | none => none
    | some z =>
      match op with
      | .ins rr => z.insert rr.name rr.rtype rr.fields rr.ttl false
      | .wild rr => z.insert rr.name rr.rtype rr.fields rr.ttl true)
    (some (Zone.new zs.apex zs.soa))

/-- the flat entry list the specification works on. -/
def entriesOf (zs : ZoneSpec) : List ZSpec.Entry :=
  let z0 := Zone.new zs.apex zs.soa
  let soaEntry : List ZSpec.Entry :=
    match zs.soa with
    | some s => [{ rel := [], wild := false, zr := ⟨RT_SOA, s.toFields, s.minimum⟩ }]
    | none => []
  soaEntry ++ zs.ops.filterMap (fun op =>
    let (rr, wild) := match op with | .ins rr => (rr, false) | .wild rr => (rr, true)
    match z0.relativeDomain rr.name with
    | some rel => some { rel, wild, zr := ⟨rr.rtype, rr.fields, z0.actualTtl rr.ttl⟩ }
    | none => none)

def sortStrings (xs : List String) : List String := xs.mergeSort (fun a b => decide (a ≤ b))

def showRRsSorted (rs : List RR) : String :=
  if rs.isEmpty then "-" else ";".intercalate (sortStrings (rs.map showRR))

def isWildcardQ (qtype : Nat) : Bool := lookupNat Gen.queryTypeFromU16 qtype == some "Wildcard"

def showZoneResult (qtype : Nat) : Option ZoneResult → String
  | none => "none"
  | some (.answer rrs) => "answer " ++ (if isWildcardQ qtype then showRRsSorted rrs else showRRs rrs)
  | some (.cname c rr) => "cname " ++ showName c ++ " " ++ showRR rr
  | some (.delegation rrs) => "delegation " ++ showRRs rrs
  | some .nameError => "nameerror"
  | some .panic => "panic"

def parseZoneResult (s : String) : Option (Option ZoneResult) :=
  if s = "none" then some none
  else if s = "nameerror" then some (some .nameError)
  else if s = "panic" then some (some .panic)
  else
    match s.splitOn " " with
    | ["answer", rrs] => (parseRRs rrs).map (fun r => some (.answer r))
    | ["delegation", rrs] => (parseRRs rrs).map (fun r => some (.delegation r))
    | ["cname", n, rr] =>
      match parseName n, parseRR rr with
      | some n, some rr => some (some (.cname n rr))
      | _, _ => none
    | _ => none

def resultTag : Option ZoneResult → String
  | none => "none"
  | some (.answer []) => "answer-empty"
  | some (.answer _) => "answer"
  | some (.cname _ _) => "cname"
  | some (.delegation _) => "delegation"
  | some .nameError => "nameerror"
  | some .panic => "panic"

/-- C02 oracle: the implementation's result against the flat specification (under D1). -/
def oracleZoneResolve (zs : ZoneSpec) (z0 : Zone) (qname : Name) (qtype : Nat) (impl : String) : String × String :=
  let es := entriesOf zs
  match z0.relativeDomain qname with
  | none => (if impl = "none" then "ok" else "fail:C02:answered-outside-apex", "outside")
  | some rel =>
    if !ZSpec.d1 es then ("ok", "nond1")
    else
      let spec := ZSpec.lookup es zs.apex qname rel qtype
      match parseZoneResult impl with
      | some (some r) =>
        (if ZSpec.sameResult r spec then "ok" else "fail:C02:differs-from-spec:" ++ resultTag (some spec), "d1")
      | _ => ("fail:C02:unparsable-or-none", "d1")

def cmdZoneResolve (zspec qname qtype impl : String) : Result :=
  match parseZoneSpec zspec, parseName qname, qtype.toNat? with
  | some zs, some qn, some qt =>
    match buildZone zs with
    | none => { model := "panic", oracle := "fail:C17:insert-panic", tags := "panic" }
    | some z =>
      let r := z.resolve qn qt
      let (o, t) := oracleZoneResolve zs (Zone.new zs.apex zs.soa) qn qt impl
      { model := showZoneResult qt r, oracle := o, tags := resultTag r ++ "/" ++ t ++ (if isWildcardQ qt then "/any" else "") }
  | _, _, _ => bad "args"

end Resolved.Driver

namespace Resolved.Driver

open Resolved Resolved.Codec

/-- entries of the union of the files for one apex: every file's records, and the SOA record of
    the last file that has one (C12). -/
def unionEntries (specs : List ZoneSpec) : List ZSpec.Entry :=
  let nonSoa := specs.flatMap (fun zs => (entriesOf zs).filter (fun e => !(e.rel.isEmpty && !e.wild && e.zr.rtype == RT_SOA && zs.soa.isSome && e.zr.fields == (zs.soa.map (·.toFields)).getD [])))
  let lastSoa := (specs.filter (·.soa.isSome)).getLast?
  match lastSoa.bind (·.soa) with
  | some s => { rel := [], wild := false, zr := ⟨RT_SOA, s.toFields, s.minimum⟩ } :: nonSoa
  | none => nonSoa

def cmdZonesMerge (specs qname qtype impl : String) : Result :=
  match (specs.splitOn "^").mapM parseZoneSpec, parseName qname, qtype.toNat? with
  | some zss, some qn, some qt =>
    let built := zss.mapM buildZone
    match built with
    | none => { model := "panic", oracle := "fail:C17:insert-panic", tags := "panic" }
    | some zones =>
      let merged := zones.foldl (fun acc z => acc.bind (fun zs => zs.insertMerge z)) (some Zones.empty)
      match merged with
      | none => { model := "panic", oracle := "fail:C12:merge-panic", tags := "panic" }
      | some all =>
        match all.resolve qn qt with
        | none => { model := "nozone", oracle := if impl = "nozone" then "ok" else "fail:C12:zone-missing", tags := "nozone" }
        | some (z, r) =>
          let model := showName z.apex ++ " " ++ (match z.soaRR with | some rr => showRR rr | none => "-") ++ " " ++ showZoneResult qt r
          -- specification: the longest enclosing apex among the files; union of its files
          let same := zss.filter (fun zs => zs.apex == z.apex)
          let es := unionEntries same
          let lastSoa := ((same.filter (·.soa.isSome)).getLast?).bind (·.soa)
          let specSoa := match lastSoa with | some s => showRR (s.toRR z.apex) | none => "-"
          let oracle :=
            match impl.splitOn " " with
            | apexS :: soaS :: rest =>
              let resS := " ".intercalate rest
              if apexS != showName z.apex then "fail:C12:wrong-zone"
              else if soaS != specSoa then "fail:C12:soa-not-last"
              else
                match (Zone.new z.apex none).relativeDomain qn with
                | none => "fail:C12:not-under-apex"
                | some rel =>
                  if !ZSpec.d1 es then "ok"
                  else
                    match parseZoneResult resS with
                    | some (some ir) =>
                      if ZSpec.sameResult ir (ZSpec.lookup es z.apex qn rel qt) then "ok"
                      else "fail:C12:differs-from-union:" ++ resultTag (some (ZSpec.lookup es z.apex qn rel qt))
                    | _ => "fail:C12:unparsable"
            | _ => "fail:C12:unparsable"
          { model, oracle, tags := resultTag r ++ s!"/files{same.length}" ++ (if ZSpec.d1 es then "/d1" else "/nond1") }
  | _, _, _ => bad "args"

end Resolved.Driver
