/-
  Cache histories (C05 / C15).
    ops      joined by '~':  t:<nanos> | i:<rr> | ia:<rrs> | g:<name>|<qtype> | gu:<name>|<qtype> | p | d
    outputs  joined by '~':  "-" | <rrs> | <dump>#<o>,<n>,<e>,<p>#<dump> | <dump>
    dump     <cs>,<ds>|<partitions>|<aq>|<eq>
             partition = <name>@<lastRead>@<nextExpiry>@<size>@<rec>+<rec>…   rec = <rtype>!<fields>!<expiry>
-/
import Driver.Base
import Driver.ZoneCmds
import Resolved.Model.Cache
import Resolved.Spec.CacheSpec

namespace Resolved.Driver

open Resolved Resolved.Codec

inductive COp where
  | tick (now : Nat)
  | ins (rr : RR)
  | insAll (rrs : List RR)
  | get (name : Name) (qtype : Nat) (unchecked : Bool)
  | prune
  | dump
deriving Repr

def parseCOp (s : String) : Option COp :=
  if s = "p" then some .prune
  else if s = "d" then some .dump
  else if s.startsWith "t:" then (s.drop 2).toString.toNat?.map .tick
  else if s.startsWith "ia:" then (parseRRs (s.drop 3).toString).map .insAll
  else if s.startsWith "i:" then (parseRR (s.drop 2).toString).map .ins
  else
    let (unchecked, rest) := if s.startsWith "gu:" then (true, (s.drop 3).toString) else (false, (s.drop 2).toString)
    if s.startsWith "g:" || s.startsWith "gu:" then
      match rest.splitOn "|" with
      | [n, t] =>
        match parseName n, t.toNat? with
        | some n, some t => some (.get n t unchecked)
        | _, _ => none
      | _ => none
    else none

def joinOr (sep : String) (xs : List String) : String :=
  if xs.isEmpty then "-" else sep.intercalate (sortStrings xs)

def showDump (c : PCache) : String :=
  let parts := c.partitions.map (fun kv =>
    let recs := kv.2.records.flatMap (fun r => r.2.map (fun t => s!"{t.1.rtype}!{showFields t.1.fields}!{t.2}"))
    s!"{showName kv.1}@{kv.2.lastRead}@{kv.2.nextExpiry}@{kv.2.size}@{joinOr "+" recs}")
  let q (x : PQ) := joinOr ";" (x.map (fun kv => s!"{showName kv.1}@{kv.2}"))
  s!"{c.currentSize},{c.desiredSize}|{joinOr ";" parts}|{q c.accessPriority}|{q c.expiryPriority}"

/-- replay on the model; returns the outputs. -/
def runModel (ops : List COp) (desired : Nat) : List String :=
  let step (st : PCache × Nat × List String) (op : COp) : PCache × Nat × List String :=
    let (c, now, outs) := st
    match op with
    | .tick t => (c, t, "-" :: outs)
    | .ins rr => (sharedInsert c rr now, now, "-" :: outs)
    | .insAll rrs => (sharedInsertAll c rrs now, now, "-" :: outs)
    | .get n t unchecked =>
      let (c', rrs) := if unchecked then cacheGetUnchecked c n t now else cacheGet c n t now
      (c', now, (if isWildcardQ t then showRRsSorted rrs else showRRs rrs) :: outs)
    | .prune =>
      match c.prune now with
      | some (c', (o, n, e, p)) =>
        (c', now, s!"{showDump c}#{b2s o},{n},{e},{p}#{showDump c'}" :: outs)
      | none => (c, now, "HANG" :: outs)
    | .dump => (c, now, showDump c :: outs)
  (ops.foldl step (PCache.new desired, 1000000000, [])).2.2.reverse

/-! ### parsing the implementation's dump for the oracle -/

def parseDumpRec (s : String) : Option CSpec.DRec :=
  match s.splitOn "!" with
  | [t, f, e] =>
    match t.toNat?, parseFields f, e.toNat? with
    | some t, some f, some e => some { rtype := t, fields := f, expiry := e }
    | _, _, _ => none
  | _ => none

def parseDumpPartition (s : String) : Option CSpec.DPart :=
  match s.splitOn "@" with
  | [n, lr, ne, size, recs] =>
    match parseName n, lr.toNat?, ne.toNat?, size.toNat?,
          (if recs = "-" then some [] else (recs.splitOn "+").mapM parseDumpRec) with
    | some name, some lastRead, some nextExpiry, some size, some recs =>
      some { name, lastRead, nextExpiry, size, recs }
    | _, _, _, _, _ => none
  | _ => none

def parseDumpQueue (s : String) : Option (List (Name × Nat)) :=
  if s = "-" then some []
  else (s.splitOn ";").mapM (fun e =>
    match e.splitOn "@" with
    | [n, p] => match parseName n, p.toNat? with
      | some n, some p => some (n, p)
      | _, _ => none
    | _ => none)

def parseDump (s : String) : Option CSpec.Dump :=
  match s.splitOn "|" with
  | [hd, parts, aq, eq] =>
    match hd.splitOn ",", (if parts = "-" then some [] else (parts.splitOn ";").mapM parseDumpPartition),
          parseDumpQueue aq, parseDumpQueue eq with
    | [cs, ds], some parts, some aq, some eq =>
      match cs.toNat?, ds.toNat? with
      | some cs, some ds => some { currentSize := cs, desiredSize := ds, parts, aq, eq }
      | _, _ => none
    | _, _, _, _ => none
  | _ => none

def parsePruneOut (s : String) : Option (CSpec.Dump × (Bool × Nat × Nat × Nat) × CSpec.Dump) :=
  match s.splitOn "#" with
  | [b, t, a] =>
    match parseDump b, t.splitOn ",", parseDump a with
    | some b, [o, n, e, p], some a =>
      match s2b o, n.toNat?, e.toNat?, p.toNat? with
      | some o, some n, some e, some p => some (b, (o, n, e, p), a)
      | _, _, _, _ => none
    | _, _, _ => none
  | _ => none

/-- the oracle: the abstract specification run against the implementation's own outputs. -/
def oracleHistory (ops : List COp) (outs : List String) (desired : Nat) (ties : Bool) : String :=
  let rec go (ops : List COp) (outs : List String) (st : CSpec.State) : String :=
    match ops, outs with
    | [], [] => "ok"
    | op :: ops', out :: outs' =>
      if out == "HANG" then "fail:C05:operation-does-not-terminate,fail:C15:operation-does-not-terminate"
      else if out == "PANIC" then "fail:C05:operation-panicked,fail:C15:operation-panicked"
      else
      match op with
      | .tick t => go ops' outs' { st with now := t }
      | .ins rr => go ops' outs' (st.insert rr)
      | .insAll rrs => go ops' outs' (rrs.foldl CSpec.State.insert st)
      | .get n t unchecked =>
        match parseRRs out with
        | none => "fail:C05:unparsable-get"
        | some rrs =>
          match st.checkGet n t unchecked rrs with
          | some why => "fail:C05:" ++ why
          | none => go ops' outs' (st.afterGet n t rrs)
      | .prune =>
        match parsePruneOut out with
        | none => "fail:C15:unparsable-prune"
        | some (b, tup, a) =>
          match st.checkDump b ties with
          | some why => "fail:C15:before-" ++ why
          | none =>
            match CSpec.checkPrune st.now desired b tup a with
            | some why => "fail:C15:" ++ why
            | none =>
              let st' := st.afterPrune a
              match st'.checkDump a ties with
              | some why => "fail:C15:after-" ++ why
              | none => go ops' outs' st'
      | .dump =>
        match parseDump out with
        | none => "fail:C15:unparsable-dump"
        | some d =>
          match st.checkDump d ties with
          | some why => "fail:C15:" ++ why
          | none => go ops' outs' st
    | _, _ => "fail:C05:output-count"
  go ops outs { now := 1000000000, desired, entries := [], lower := [], upper := [] }

def cmdCacheHist (desired ops impl : String) (ties : Bool) : Result :=
  match desired.toNat?, (ops.splitOn "~").mapM parseCOp with
  | some d, some ops =>
    let outs := runModel ops d
    let o := oracleHistory ops (impl.splitOn "~") d ties
    let nPrune := (ops.filter (fun | .prune => true | _ => false)).length
    -- under ties the priority queue's pop order is unspecified: the model is not authoritative
    -- there, only the specification oracle judges the history
    { model := if ties then impl else "~".intercalate outs, oracle := o,
      tags := s!"len{ops.length / 10 * 10}/prunes{nPrune}/size{d}" }
  | _, _ => bad "args"

def cmdCacheInv (impl : String) : Result :=
  if impl = "panic" then { model := "-", oracle := "fail:C15:panic-in-thread" }
  else if impl = "HANG" then { model := "-", oracle := "fail:C15:cache-operation-does-not-return" }
  else
    match parseDump impl with
    | none => { model := "-", oracle := "fail:C15:unparsable-dump" }
    | some d =>
      match CSpec.dumpInvariant d with
      | some why => { model := impl, oracle := "fail:C15:threads-" ++ why }
      | none => { model := impl, oracle := "ok", tags := s!"parts{d.parts.length}" }

end Resolved.Driver
