/-
  `load_zone_configuration` in-process (C12): file order, directories, hosts merge, all-or-nothing.
    config.load <entries &> <zf order,>#<hf order,> <questions +>  →  loaded|failed#<answer>+<answer>…
    entry   zf:<file>=<zonespec|BAD> | zd<i>:<file>=… | hf:<file>=<hosts text hex> | hd<i>:<file>=…
-/
import Driver.Base
import Driver.ZoneCmds
import Driver.HostsCmds
import Resolved.Model.Server

namespace Resolved.Driver

open Resolved Resolved.Codec

structure CfgEntry where
  kind : String
  file : String
  body : String

def parseCfgEntries (s : String) : List CfgEntry :=
  if s = "-" then [] else (s.splitOn "&").filterMap (fun e =>
    match e.splitOn "=" with
    | key :: rest =>
      match key.splitOn ":" with
      | [kind, file] => some { kind, file, body := "=".intercalate rest }
      | _ => none
    | _ => none)

def sortByFile (es : List CfgEntry) : List CfgEntry := es.mergeSort (fun a b => decide (a.file ≤ b.file))

def orderBy (order : List String) (es : List CfgEntry) : List CfgEntry :=
  order.filterMap (fun f => es.find? (·.file == f))

def zoneOfEntry (e : CfgEntry) : Option Zone :=
  if e.body = "BAD" then none else (parseZoneSpec e.body).bind buildZone

def hostsOfEntry (e : CfgEntry) : Option Hosts :=
  match decodeText e.body with
  | none => none
  | some cs => match Hosts.deserialise cs with
    | .ok h => some h
    | .error _ => none

def cmdConfigLoad (entries orders qs impl : String) : Result :=
  let es := parseCfgEntries entries
  match orders.splitOn "#" with
  | [zfo, hfo] =>
    let names (s : String) := if s = "" then [] else s.splitOn ","
    let kindIs (k : String) := es.filter (·.kind == k)
    let zoneOrder := orderBy (names zfo) (kindIs "zf") ++ sortByFile (kindIs "zd0") ++ sortByFile (kindIs "zd1")
    let hostsOrder := orderBy (names hfo) (kindIs "hf") ++ sortByFile (kindIs "hd0") ++ sortByFile (kindIs "hd1")
    let zoneFiles := zoneOrder.map zoneOfEntry
    let hostsFiles := hostsOrder.map hostsOfEntry
    let hostsZone : Option Zone :=
      if hostsFiles.any Option.isNone then none
      else ((hostsFiles.filterMap id).foldl Hosts.merge Hosts.new).toZone
    let cfg := loadConfiguration zoneFiles hostsZone
    let questions := if qs = "" then [] else (qs.splitOn "+").filterMap (fun q =>
      match q.splitOn "|" with
      | [n, t] => match parseName n, t.toNat? with
        | some n, some t => some (n, t)
        | _, _ => none
      | _ => none)
    let answers : List String := questions.map (fun (qn, qt) =>
      match cfg with
      | none => "-"
      | some all =>
        match all.resolve qn qt with
        | none => "nozone"
        | some (z, r) => showName z.apex ++ " " ++ (match z.soaRR with | some rr => showRR rr | none => "-") ++ " " ++ showZoneResult qt r)
    let model := (if cfg.isSome then "loaded" else "failed") ++ "#" ++ "+".intercalate answers
    -- the model IS the specification of C12's file-order clauses (explicit files in the order given,
    -- then each directory sorted; hosts into the root zone last; one bad file fails the load)
    let anyBad := zoneFiles.any Option.isNone || hostsFiles.any Option.isNone
    let oracle :=
      if impl == model then "ok"
      else if impl.startsWith "loaded" != cfg.isSome then
        (if anyBad then "fail:C12:bad-file-did-not-fail-the-load,fail:C19:bad-file-did-not-fail-the-load" else "fail:C12:valid-files-rejected")
      else "fail:C12:configuration-differs-from-union-in-load-order"
    { model, oracle, tags := s!"cfg/z{zoneFiles.length}/h{hostsFiles.length}/{if cfg.isSome then "ok" else "bad"}" }
  | _ => bad "orders"

end Resolved.Driver
