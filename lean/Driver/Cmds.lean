import Driver.Codec

namespace Resolved.Driver

open Resolved Resolved.Codec

structure Result where
  model : String
  oracle : String := "ok"
  tags : String := ""

def bad (why : String) : Result := { model := "bad-op:" ++ why, oracle := "bad-op" }

def showEErr : EErr → String
  | .counterTooLarge c b => s!"CounterTooLarge({c},{b})"

def cmdDecode (hex impl : String) : Result :=
  match bytesOfHex hex with
  | none => bad "hex"
  | some buf =>
    match decodeMessage buf with
    | .ok m => { model := "ok " ++ showMessage m, tags := "ok" }
    | .error e => { model := "err " ++ showDErr e, tags := (showDErr e).takeWhile (· != '(') |>.toString }

def cmdEncode (msg impl : String) : Result :=
  match parseMessage msg with
  | none => bad "message"
  | some m =>
    match encodeMessage m with
    | .ok bs => { model := "ok " ++ hexOfBytes bs, tags := "ok" }
    | .error e => { model := "err " ++ showEErr e, tags := "err" }

def dispatch (fields : List String) : Result :=
  match fields with
  | ["decode", hex, impl] => cmdDecode hex impl
  | ["encode", msg, impl] => cmdEncode msg impl
  | ["label.tryFrom", hex, _] =>
    match bytesOfHex hex with
    | none => bad "hex"
    | some bs => { model := match Label.tryFrom bs with | none => "none" | some l => hexOfBytes l }
  | ["name.fromLabels", ls, _] =>
    match parseLabels ls with
    | none => bad "labels"
    | some ls => { model := showOptName (Name.fromLabels ls) }
  | ["name.fromDotted", hex, _] =>
    match bytesOfHex hex with
    | none => bad "hex"
    | some s => { model := showOptName (Name.fromDotted s) }
  | ["name.fromRelative", origin, hex, _] =>
    match parseName origin, bytesOfHex hex with
    | some o, some s => { model := showOptName (Name.fromRelativeDotted o s) }
    | _, _ => bad "args"
  | ["name.toDotted", n, _] =>
    match parseName n with
    | some n => { model := hexOfBytes n.toDotted }
    | none => bad "name"
  | ["name.makeSub", n, o, _] =>
    match parseName n, parseName o with
    | some n, some o => { model := showOptName (Name.makeSubdomainOf n o) }
    | _, _ => bad "args"
  | ["name.isSub", n, o, _] =>
    match parseName n, parseName o with
    | some n, some o => { model := b2s (Name.isSubdomainOf n o) }
    | _, _ => bad "args"
  | ["name.cmp", a, b, _] =>
    match parseName a, parseName b with
    | some a, some b => { model := match Name.cmp a b with | .lt => "lt" | .eq => "eq" | .gt => "gt" }
    | _, _ => bad "args"
  | cmd :: _ => bad ("unknown " ++ cmd)
  | [] => bad "empty"

end Resolved.Driver
