import Driver.Base
import Driver.ZoneCmds
import Driver.CacheCmds
import Driver.UpstreamCmds
import Driver.ResolveCmds
import Driver.ServerCmds
import Driver.HostsCmds
import Driver.ConfigCmds
import Driver.ZoneTextCmds
import Resolved.Spec.RefDecode

namespace Resolved.Driver

open Resolved Resolved.Codec

def showEErr : EErr → String
  | .counterTooLarge c b => s!"CounterTooLarge({c},{b})"

/-- C16: executable form of `WFName` (absolute, no empty label but the last, labels ≤ 63, total
    ≤ 255 with `len` = encoded length, no ASCII upper case). -/
def wfNameB (n : Name) : Bool :=
  let ls := n.labels
  !ls.isEmpty && ls.getLast? == some [] && ls.dropLast.all (fun l => !l.isEmpty) &&
    ls.all (fun l => l.length ≤ 63 && l.all (fun b => !(65 ≤ b.toNat && b.toNat ≤ 90))) &&
    n.len == ls.length + (ls.map List.length).sum && n.len ≤ 255

def msgNames (m : Message) : List Name :=
  m.questions.map (·.name) ++
    (m.answers ++ m.authority ++ m.additional).flatMap (fun r =>
      r.name :: r.fields.filterMap (fun f => match f with | .name n => some n | _ => none))

/-- oracle for the constructors: whatever they return must be well-formed; `specAccept` (when
    known) says whether the input is within the limits. -/
def oracleName (impl : String) (specAccept : Option Bool) : String :=
  if impl == "none" then (if specAccept == some true then "fail:C16:rejected-valid-name" else "ok")
  else if impl == "panic" then "fail:C16:name-constructor-panicked,fail:C17:name-constructor-panicked"
  else
    match parseName impl with
    | none => "fail:C16:unparsable"
    | some n =>
      if !wfNameB n then "fail:C16:constructed-name-not-wellformed"
      else if specAccept == some false then "fail:C16:accepted-input-violating-limits"
      else "ok"

/-- split a byte string at every `.` (46) -/
def splitDots (s : List UInt8) : List (List UInt8) :=
  let (cur, acc) := s.foldl (fun (p : List UInt8 × List (List UInt8)) b =>
    if b.toNat == 46 then ([], p.2 ++ [p.1]) else (p.1 ++ [b], p.2)) ([], [])
  acc ++ [cur]

/-- C16, independent reading of the text form: `.` and the empty string are the root; otherwise the
    text ends in exactly one final dot, every label before it is non-empty and at most 63 octets,
    and the wire length (one length octet per label, plus the root) is at most 255. -/
def specDottedOk (s : List UInt8) : Bool :=
  if s == [46] || s.isEmpty then true
  else
    match s.getLast? with
    | some d =>
      if d.toNat != 46 then false
      else
        let chunks := splitDots s.dropLast
        chunks.all (fun c => !c.isEmpty && c.length ≤ 63) && (chunks.map (·.length + 1)).sum + 1 ≤ 255
    | none => true

def be16? (buf : List UInt8) : Option Nat :=
  match buf with
  | a :: b :: _ => some (a.toNat * 256 + b.toNat)
  | _ => none

/-- C03 oracle: the implementation's verdict against the reference decoder + the ID rule. -/
def oracleDecode (buf : List UInt8) (impl : String) : String :=
  let ref := Ref.message buf
  if impl == "hang" then "fail:C03:decoder-does-not-terminate"
  else if impl == "panic" then "fail:C03:decoder-panicked"
  else
  if impl.startsWith "ok " then
    -- C16 judges the names the implementation itself produced, whatever the reference says
    let c16 : List String := match parseMessage (impl.drop 3).toString with
      | some mi => if (msgNames mi).all wfNameB then [] else ["fail:C16:wire-name-not-wellformed"]
      | none => []
    let c03 : List String := match ref with
      | none => ["fail:C03:accepted-malformed"]
      | some (m, _) => if "ok " ++ showMessage m != impl then ["fail:C03:misread"] else []
    if (c03 ++ c16).isEmpty then "ok" else ",".intercalate (c03 ++ c16)
  else if impl.startsWith "err " then
    match ref with
    | some _ => "fail:C03:rejected-wellformed"
    | none =>
      match be16? buf with
      | none => if impl = "err CompletelyBusted" then "ok" else "fail:C03:short-not-busted"
      | some id => if impl.endsWith s!"({id})" then "ok" else "fail:C03:error-id"
  else "fail:C03:unparsable-impl-output"

def cmdDecode (hex impl : String) : Result :=
  match bytesOfHex hex with
  | none => bad "hex"
  | some buf =>
    let o := oracleDecode buf impl
    match decodeMessage buf with
    | .ok m => { model := "ok " ++ showMessage m, oracle := o, tags := "ok" }
    | .error e => { model := "err " ++ showDErr e, oracle := o,
                    tags := ((showDErr e).takeWhile (· != '(')).toString }

/-- C04 oracle: the implementation's bytes read back by the reference decoder give the message,
    and every compression pointer addresses the start of a complete name written earlier in full. -/
def oracleEncode (m : Message) (impl : String) : String :=
  if impl.startsWith "ok " then
    match bytesOfHex (impl.drop 3).toString with
    | none => "fail:C04:unparsable-impl-output"
    | some bs =>
      match Ref.message bs with
      | none => "fail:C04:encoded-bytes-malformed"
      | some (m', tr) =>
        if m' != m then "fail:C04:roundtrip-differs"
        else if tr.pointerTargets.all (fun t => tr.fullNameStarts.contains t) then "ok"
        else "fail:C04:pointer-not-at-full-name"
  else
    let big := (m.answers ++ m.authority ++ m.additional).any (fun r => Ref.rdataLen r ≥ 65536)
    let many := m.questions.length ≥ 65536 || m.answers.length ≥ 65536 || m.authority.length ≥ 65536
                  || m.additional.length ≥ 65536
    if big || many then "ok" else "fail:C04:refused-wellformed"

def cmdEncode (msg impl : String) : Result :=
  match parseMessage msg with
  | none => bad "message"
  | some m =>
    let o := oracleEncode m impl
    match encodeMessage m with
    | .ok bs =>
      { model := "ok " ++ hexOfBytes bs, oracle := o,
        tags := if bs.length ≥ 16384 then "ok-big" else if (m.answers.length + m.authority.length + m.additional.length) ≥ 2 then "ok-multi" else "ok-small" }
    | .error e => { model := "err " ++ showEErr e, oracle := o, tags := "err" }

def dispatch (fields : List String) : Result :=
  match fields with
  | ["decode", hex, impl] => cmdDecode hex impl
  | ["encode", msg, impl] => cmdEncode msg impl
  | ["reencode", hex, impl] =>
    match bytesOfHex hex with
    | none => bad "hex"
    | some buf =>
      let model := match decodeMessage buf with
        | .error _ => "undecodable"
        | .ok m1 => match encodeMessage m1 with
          | .error _ => "reencode-failed"
          | .ok b2 => match decodeMessage b2 with
            | .error e => "redecode-failed " ++ showDErr e
            | .ok m2 => if m1 == m2 then "same" else "differs"
      let oracle :=
        if impl == "undecodable" then (if (Ref.message buf).isNone then "ok" else "fail:C03:rejected-wellformed")
        else if impl == "same" then "ok"
        else "fail:C04:reencoded-message-does-not-decode-to-itself:" ++ ((impl.splitOn " ").headD "")
      { model, oracle, tags := "re/" ++ ((model.splitOn " ").headD "") }
  | ["table.code", c, _] =>
    match c.toNat? with
    | none => bad "code"
    | some c =>
      -- the codes are their own round trip in the model (types are their u16 codes)
      { model := s!"rt:{b2s (rtypeIsUnknown c)}/{c} qt:{b2s (qtypeIsUnknown c)}/{c} rc:{b2s (rclassIsUnknown c)}/{c} qc:{b2s (qclassIsUnknown c)}/{c} m:{b2s (rtypeMatches RT_A c)}{b2s (rtypeMatches RT_CNAME c)}{b2s (rclassMatches CLASS_IN c)}",
        tags := if rtypeIsUnknown c then "unknown" else "known" }
  | ["table.nibble", o, _] =>
    match o.toNat? with
    | none => bad "octet"
    | some o => { model := s!"op:{opcodeFromU8 o} rc:{rcodeFromU8 o}", tags := "nibble" }
  | ["decode-deep", depth, _stack, hex, impl] =>
    match bytesOfHex hex with
    | none => bad "hex"
    | some buf =>
      let model := match decodeMessage buf with
        | .ok m => s!"ok answers={m.answers.length}"
        | .error e => "err " ++ showDErr e
      { model, oracle := if impl == "panic" then "fail:C03:panic-or-stack-overflow" else if impl.startsWith "ok" == (Ref.message buf).isSome then "ok" else "fail:C03:deep-chain-misjudged",
        tags := "deep" ++ depth }
  | ["label.tryFrom", hex, _] =>
    match bytesOfHex hex with
    | none => bad "hex"
    | some bs => { model := match Label.tryFrom bs with | none => "none" | some l => hexOfBytes l }
  | ["name.fromLabels", ls, impl] =>
    match parseLabels ls with
    | none => bad "labels"
    | some ls =>
      let shape := !ls.isEmpty && ls.getLast? == some [] && ls.dropLast.all (fun l => !l.isEmpty)
      let total := ls.length + (ls.map List.length).sum
      { model := showOptName (Name.fromLabels ls), oracle := oracleName impl (some (shape && total ≤ 255)),
        tags := if total ≥ 250 then "near-limit" else "small" }
  | ["name.fromDotted", hex, impl] =>
    match bytesOfHex hex with
    | none => bad "hex"
    | some s => { model := showOptName (Name.fromDotted s), oracle := oracleName impl (some (specDottedOk s)) }
  | ["name.fromRelative", origin, hex, impl] =>
    match parseName origin, bytesOfHex hex with
    | some o, some s => { model := showOptName (Name.fromRelativeDotted o s), oracle := oracleName impl none }
    | _, _ => bad "args"
  | ["name.toDotted", n, _] =>
    match parseName n with
    | some n => { model := hexOfBytes n.toDotted }
    | none => bad "name"
  | ["name.makeSub", n, o, impl] =>
    match parseName n, parseName o with
    | some n, some o =>
      let total := (n.labels.dropLast ++ o.labels).length + ((n.labels.dropLast ++ o.labels).map List.length).sum
      { model := showOptName (Name.makeSubdomainOf n o), oracle := oracleName impl (some (total ≤ 255)),
        tags := if total ≥ 250 then "near-limit" else "small" }
    | _, _ => bad "args"
  | ["name.isSub", n, o, impl] =>
    match parseName n, parseName o with
    | some n, some o =>
      -- independent reading: the labels of `o` are a suffix of the labels of `n`
      let k := n.labels.length - o.labels.length
      let spec := o.labels.length ≤ n.labels.length && n.labels.drop k == o.labels
      { model := b2s (Name.isSubdomainOf n o),
        oracle := if impl == b2s spec then "ok" else "fail:C16:subdomain-relation-differs-from-label-suffix",
        tags := if spec then "sub" else if o.labels.length > n.labels.length then "shorter" else "other" }
    | _, _ => bad "args"
  | ["name.cmp", a, b, _] =>
    match parseName a, parseName b with
    | some a, some b => { model := match Name.cmp a b with | .lt => "lt" | .eq => "eq" | .gt => "gt" }
    | _, _ => bad "args"
  | ["zone.resolve", z, n, t, impl] => cmdZoneResolve z n t impl
  | ["zones.merge", z, n, t, impl] => cmdZonesMerge z n t impl
  | ["cache.hist", d, ops, impl] => cmdCacheHist d ops impl false
  | ["cache.hist-ties", d, ops, impl] => cmdCacheHist d ops impl true
  | ["cache.inv", _, impl] => cmdCacheInv impl
  | ["upstream.validate", q, mc, m, impl] => cmdValidate q mc m impl
  | ["upstream.matches", a, b, impl] => cmdMatches a b impl
  | ["resolve", fam, mode, zones, cache, script, q, expect, impl] => cmdResolve fam mode zones cache script q expect impl
  | ["server.udp", mode, zones, q, impl] => cmdServerUdp mode zones q impl
  | ["server.tcp", mode, zones, q, impl] =>
    cmdServerTcp mode zones q (match bytesOfHex q with | some b => toString b.length | none => "0") impl
  | ["server.tcp-short", mode, zones, q, announce, impl] => cmdServerTcp mode zones q announce impl
  | ["server.alive", _, impl] =>
    { model := "alive", oracle := if impl == "alive" then "ok" else "fail:C09:server-died", tags := "alive" }
  | ["server.start", _, impl] => { model := "started", oracle := "fail:C09:server-did-not-start:" ++ impl }
  | ["server.reload", steps, impl] => cmdServerReload steps impl
  | ["server.reload-blocked", vs, impl] =>
    -- a reload held open on a FIFO: old answers meanwhile, second SIGUSR1 not lost (specification only)
    match vs.splitOn ",", impl.splitOn " " with
    | [v1, _v2, v3], [before, during, first, second, final, alive] =>
      let d := ((during.drop 7).toString).splitOn ","
      let vsd : List String :=
        (if before != "before:" ++ v1 then ["fail:C19:initial-answer-differs"] else [])
        ++ (if d.any (· == "noreply") then ["fail:C19:query-unanswered-during-reload"] else [])
        ++ (if d.any (fun x => x != v1 && x != "noreply") then ["fail:C19:answer-during-reload-not-from-old-configuration"] else [])
        ++ (if first != "first:true" then ["fail:C19:valid-configuration-rejected"] else [])
        ++ (if second != "second:true" then ["fail:C19:second-sigusr1-lost"] else [])
        ++ (if final != "final:" ++ v3 then ["fail:C19:later-answers-do-not-reflect-the-new-files"] else [])
        ++ (if alive != "alive" then ["fail:C19:server-died"] else [])
      { model := impl, oracle := if vsd.isEmpty then "ok" else ",".intercalate vsd, tags := "blocked" }
    | _, _ => { model := "?", oracle := "fail:C19:unparsable", tags := "blocked" }
  | ["resolve-real", fam, _, _, _, _, _, _, impl] =>
    -- a resolution under the REAL clock (CPU-bound searches cost no virtual time, so the model cannot
    -- judge them): it must end within the 60 s budget (+ 5 s of slack for a loaded machine)
    let parts := impl.splitOn " # "
    let elapsed := (parts.getD 2 "").toNat?
    let v := if impl == "hang" || impl == "panic" then "fail:C08:over-60s-budget-cpu-bound-search"
      else match elapsed with
        | some ms => if ms > 65000 then "fail:C08:over-60s-budget-cpu-bound-search" else "ok"
        | none => "fail:C08:unparsable"
    { model := impl, oracle := v, tags := s!"real/{fam}/" ++ ((parts.headD "").splitOn " ").headD "" ++ (if (elapsed.getD 0) ≥ 59000 then "/at-budget" else "/early") }
  | ["server.fd-exhaustion", _, impl] =>
    -- after a spell of descriptor exhaustion (accept failing) the server serves TCP clients again
    { model := "tcp-after=answered udp=answered",
      oracle := if impl == "tcp-after=answered udp=answered" then "ok" else "fail:C09:stopped-serving-tcp-after-accept-errors",
      tags := "fd" }
  | ["server.burst", n, impl] =>
    -- n datagrams sent back to back: exactly one reply each
    { model := s!"replies={n} dup=0", oracle := if impl == s!"replies={n} dup=0" then "ok" else "fail:C09:reply-lost-or-duplicated-in-a-burst",
      tags := "burst" }
  | ["server.deep", depth, impl] =>
    -- the release build of the server and a well-formed message with `depth` nested compression pointers
    { model := impl, oracle := if impl.startsWith "replied" then "ok"
                               else if impl == "server-died" then "fail:C03:server-worker-stack-exhausted-by-pointer-chain"
                               else "fail:C03:no-reply-to-wellformed-deep-message",
      tags := s!"deep/{depth}" }
  | ["server.reload-live", variant, impl] =>
    -- reloads while the real binary is busy (judged by the harness from the answers it collected)
    let v := (impl.splitOn " ").headD "?"
    { model := impl, oracle := if v == "ok" then "ok" else v, tags := s!"reload-live/{variant}" }
  | ["server.fwd", pm, _, kind, impl] =>
    -- the real binary in forwarding mode against a mock forwarder and a decoy port: the verdict is
    -- computed by the harness from what reached the two sockets and from the reply
    let v := (impl.splitOn " ").headD "?"
    { model := impl, oracle := if v == "ok" then "ok" else v, tags := s!"fwd/{pm}/{kind}/" ++ ((impl.splitOn " ").getD 1 "") }
  | ["bin.same", tool, cls, _, impl] =>
    -- the converter binaries against the library functions (glue check; the library is what the
    -- other streams tie to the model)
    let pid := if tool == "ztoz" then "C13" else "C14"
    { model := "same", oracle := if impl == "same" then "ok" else s!"fail:{pid}:binary-{tool}-differs-from-library",
      tags := s!"{tool}:{cls}" }
  | ["hosts.parse", hex, impl] => cmdHostsParse hex impl
  | ["hosts.roundtrip", d, impl] => cmdHostsRoundtrip d impl
  | ["hosts.tozone", d, impl] => cmdHostsToZone d impl
  | ["hosts.merge", a, b, impl] => cmdHostsMerge a b impl
  | ["hosts.lossy", z, impl] => cmdHostsLossy z impl
  | ["ip.parse", hex, impl] => cmdIpParse hex impl
  | ["ip.show", v, impl] => cmdIpShow v impl
  | ["config.load", es, orders, qs, impl] => cmdConfigLoad es orders qs impl
  | ["ztext.parse", hex, impl] => cmdZtextParse hex impl
  | ["ztext.roundtrip", hex, impl] => cmdZtextRoundtrip hex impl
  | ["ztext.glued", o, g, impl] => cmdZtextGlued o g impl
  | ["ztext.api", z, impl] => cmdZtextApi z impl
  | ["ztext.serialise", z, impl] => cmdZtextSerialise z impl
  | ["ztext.rendered", ds, v, hex, impl] => cmdZtextRendered ds v hex impl
  | cmd :: _ => bad ("unknown " ++ cmd)
  | [] => bad "empty"

end Resolved.Driver
