/-
  Hosts commands of the line protocol (C14, C17).
    hostsdump   v4:<name>=<u32>,…|v6:<name>=g-g-g-g-g-g-g-g,…     entries sorted as strings, `-` = none
    herr        ExpectedAscii(<code point>) | CouldNotParseAddress(<hex>) | CouldNotParseName(<hex>) | panic
    hosts.parse      <hex utf-8 text>          → ok <hostsdump> | err <herr>
    hosts.roundtrip  <hostsdump>               → <hex text> ok <hostsdump> | <hex text> err <herr> | panic
    hosts.tozone     <hostsdump>               → Z:<rrs sorted>!T:ok <hostsdump>|err <Kind>!R:<zresult>^…
    hosts.merge      <hostsdump> <hostsdump>   → <hostsdump>
    hosts.lossy      <zonespec>                → L:<hostsdump>!T:ok <hostsdump>|err <Kind>
    ip.parse         <hex>                     → v4:<u32> | v6:g-…-g | none
    ip.show          v4:<u32> | v6:g-…-g       → <hex text>
-/
import Driver.Base
import Driver.ZoneCmds
import Resolved.Spec.HostsSpec

namespace Resolved.Driver

open Resolved Resolved.Codec Resolved.HostsM

def showGroups (gs : List Nat) : String := "-".intercalate (gs.map toString)

def showHostsDump (h : Hosts) : String :=
  let e4 := sortStrings (h.v4.map (fun kv => showName kv.1 ++ "=" ++ toString kv.2))
  let e6 := sortStrings (h.v6.map (fun kv => showName kv.1 ++ "=" ++ showGroups kv.2))
  "v4:" ++ (if e4.isEmpty then "-" else ",".intercalate e4) ++ "|v6:" ++
    (if e6.isEmpty then "-" else ",".intercalate e6)

def parseEntries {α : Type} (s : String) (val : String → Option α) : Option (List (Name × α)) :=
  if s = "-" then some []
  else (s.splitOn ",").mapM (fun e =>
    match e.splitOn "=" with
    | [n, v] =>
      match parseName n, val v with
      | some n, some v => some (n, v)
      | _, _ => none
    | _ => none)

def parseHostsDump (s : String) : Option Hosts :=
  match s.splitOn "|" with
  | [a, b] =>
    match stripPrefix? a "v4:", stripPrefix? b "v6:" with
    | some a, some b =>
      match parseEntries a String.toNat?, parseEntries b (fun v => (v.splitOn "-").mapM String.toNat?) with
      | some v4, some v6 => some ⟨v4, v6⟩
      | _, _ => none
    | _, _ => none
  | _ => none

def charsHex (cs : List Char) : String := hexOfBytes (utf8Encode cs)

def showHErr : HErr → String
  | .expectedAscii c => s!"ExpectedAscii({c.toNat})"
  | .couldNotParseAddress a => s!"CouldNotParseAddress({charsHex a})"
  | .couldNotParseName n => s!"CouldNotParseName({charsHex n})"
  | .panic => "panic"

def herrTag : HErr → String
  | .expectedAscii _ => "ExpectedAscii"
  | .couldNotParseAddress _ => "CouldNotParseAddress"
  | .couldNotParseName _ => "CouldNotParseName"
  | .panic => "panic"

def showParseResult : Except HErr Hosts → String
  | .ok h => "ok " ++ showHostsDump h
  | .error .panic => "panic"
  | .error e => "err " ++ showHErr e

def decodeText (hex : String) : Option (List Char) :=
  match bytesOfHex hex with
  | none => none
  | some bs => (String.fromUTF8? (ByteArray.mk bs.toArray)).map String.toList

/-- coverage features of a hosts text. -/
def textFeatures (cs : List Char) : String :=
  let rec hashAfterName : List Char → Bool
    | a :: b :: rest => (!HSpec.ws a && !HSpec.hash a && HSpec.hash b) || hashAfterName (b :: rest)
    | _ => false
  let rec crlf : List Char → Bool
    | a :: b :: rest => (a.toNat == 13 && b.toNat == 10) || crlf (b :: rest)
    | _ => false
  let rec loneCr : List Char → Bool
    | a :: b :: rest => (a.toNat == 13 && b.toNat != 10) || loneCr (b :: rest)
    | [a] => a.toNat == 13
    | [] => false
  let lines := HSpec.lines cs
  let pctAddr := lines.any (fun l =>
    match HSpec.fields (HSpec.body l) with
    | f0 :: _ => (f0.drop 1).any HSpec.percent
    | [] => false)
  let replaced :=
    match HSpec.mappings lines with
    | .ok ms => let h := HSpec.hostsOf ms; decide (h.v4.length + h.v6.length < ms.length)
    | .error _ => false
  let fs : List (String × Bool) :=
    [("hashadj", hashAfterName cs), ("pctaddr", pctAddr), ("crlf", crlf cs), ("lonecr", loneCr cs),
     ("nonascii", cs.any (fun c => !HSpec.ascii c)), ("v6", cs.any (·.toNat == 58)), ("replaced", replaced)]
  "+".intercalate ((fs.filter (·.2)).map (·.1))

/-- C14 oracle for reading: the implementation against the split-based specification. -/
def oracleParse (cs : List Char) (impl : String) : String :=
  if impl = "panic" then "fail:C17:hosts-parse-panic"
  else if impl = "abort" then "fail:C17:hosts-process-aborted-stack-or-allocation"
  else
    match HSpec.parse cs with
    | .ok h =>
      if impl = "ok " ++ showHostsDump h then "ok"
      else if impl.startsWith "ok " then "fail:C14:mappings-differ-from-spec"
      else "fail:C14:rejected-valid-file"
    | .error e =>
      if impl = "err " ++ showHErr e then "ok"
      else if impl.startsWith "ok " then "fail:C14:accepted-malformed-file"
      else "fail:C14:wrong-error"

def cmdHostsParse (hex impl : String) : Result :=
  match decodeText hex with
  | none => bad "utf8"
  | some cs =>
    let r := Hosts.deserialise cs
    let kind := match r with
      | .ok h => s!"ok/{min (h.v4.length + h.v6.length) 9}"
      | .error e => "err/" ++ herrTag e
    { model := showParseResult r, oracle := oracleParse cs impl,
      tags := kind ++ "/" ++ textFeatures cs }

/-- precondition of the text round trip — the executable twin of `HostsWF`
    (Proofs/HostsTextLemmas.lean): the name is well formed and every label is made of ASCII octets
    other than white space, `#`, `.` and upper-case letters (`%` only matters in the address field). -/
def labelTextOK (l : Label) : Bool :=
  l.all (fun b => b.toNat < 128 && !(b.toNat == 32 || (9 ≤ b.toNat && b.toNat ≤ 13)) && b.toNat != 35
    && b.toNat != 46 && !(65 ≤ b.toNat && b.toNat ≤ 90))

def nameTextOK (n : Name) : Bool :=
  Name.fromLabels n.labels == some n && n.labels.all labelTextOK &&
    n.labels.all (·.length ≤ Gen.LABEL_MAX_LEN)

def hostsTextOK (h : Hosts) : Bool :=
  h.v4.all (fun kv => nameTextOK kv.1 && kv.2 < 4294967296) &&
  h.v6.all (fun kv => nameTextOK kv.1 && kv.2.length == 8 && kv.2.all (· < 65536))

def keysNodup {α : Type} (m : AddrMap α) : Bool :=
  let ks := m.map (·.1)
  ks.eraseDups.length == ks.length

def cmdHostsRoundtrip (dump impl : String) : Result :=
  match parseHostsDump dump with
  | none => bad "hostsdump"
  | some h =>
    let wf := hostsTextOK h
    match h.serialise with
    | none => { model := "panic", oracle := "ok", tags := "serialise-panic" }
    | some text =>
      let back := Hosts.deserialise text
      let model := charsHex text ++ " " ++ showParseResult back
      -- oracle on the implementation's own output
      let oracle :=
        if impl = "panic" then "fail:C17:hosts-roundtrip-panic"
        else if !wf then "ok"
        else
          match impl.splitOn " " with
          | textHex :: rest =>
            let reread := " ".intercalate rest
            if reread != "ok " ++ showHostsDump h then "fail:C14:text-roundtrip-differs"
            else
              match decodeText textHex with
              | none => "fail:C14:serialised-not-utf8"
              | some cs =>
                match HSpec.parse cs with
                | .ok h' => if showHostsDump h' = showHostsDump h then "ok" else "fail:C14:serialised-text-means-other-data"
                | .error _ => "fail:C14:serialised-text-not-hosts5"
          | [] => "fail:C14:unparsable-impl-output"
      { model, oracle,
        tags := (if wf then "wf" else "nonwf") ++ "/" ++ (match back with | .ok _ => "ok" | .error e => herrTag e)
                 ++ s!"/n{min (h.v4.length + h.v6.length) 9}" }

def showTryFrom : Except Hosts.TryFromZoneError Hosts → String
  | .ok h => "ok " ++ showHostsDump h
  | .error .hasWildcardRecords => "err HasWildcardRecords"
  | .error .hasRecordTypesOtherThanA => "err HasRecordTypesOtherThanA"

def zoneRecordsSorted (z : Zone) : String :=
  showRRsSorted (z.allRecords.flatMap (fun nz => nz.2.map (·.toRR nz.1)))

def sortedKeys {α : Type} (m : AddrMap α) : List Name :=
  let withKey := m.map (fun kv => (showName kv.1, kv.1))
  (withKey.mergeSort (fun a b => decide (a.1 ≤ b.1))).map (·.2)

/-- the statement of the zone clause for hosts data `h` (names well formed, keys distinct):
    exactly one A/AAAA record (TTL 5, class IN) per mapping; converts back to `h`; resolves. -/
def expectedToZone (h : Hosts) : String :=
  let rr4 (kv : Name × Nat) : RR := ⟨kv.1, RT_A, [.a kv.2], CLASS_IN, 5⟩
  let rr6 (kv : Name × List Nat) : RR := ⟨kv.1, RT_AAAA, [.aaaa kv.2], CLASS_IN, 5⟩
  let z := showRRsSorted (h.v4.map rr4 ++ h.v6.map rr6)
  let res4 := (sortedKeys h.v4).filterMap (fun n => (h.v4.get n).map (fun a => "answer " ++ showRR (rr4 (n, a))))
  let res6 := (sortedKeys h.v6).filterMap (fun n => (h.v6.get n).map (fun g => "answer " ++ showRR (rr6 (n, g))))
  "Z:" ++ z ++ "!T:ok " ++ showHostsDump h ++ "!R:" ++ "^".intercalate (res4 ++ res6)

def cmdHostsToZone (dump impl : String) : Result :=
  match parseHostsDump dump with
  | none => bad "hostsdump"
  | some h =>
    let namesOK := h.v4.all (fun kv => Name.fromLabels kv.1.labels == some kv.1) &&
                   h.v6.all (fun kv => Name.fromLabels kv.1.labels == some kv.1)
    let pre := namesOK && keysNodup h.v4 && keysNodup h.v6
    let oracle :=
      if impl = "panic" then "fail:C17:hosts-tozone-panic"
      else if !pre then "ok"
      else if impl = expectedToZone h then "ok"
      else
        match impl.splitOn "!", (expectedToZone h).splitOn "!" with
        | [z, t, r], [ez, et, er] =>
          if z != ez then "fail:C14:zone-records-differ"
          else if t != et then "fail:C14:zone-roundtrip-differs"
          else if r != er then "fail:C14:does-not-resolve" else "fail:C14:tozone"
        | _, _ => "fail:C14:unparsable-impl-output"
    match h.toZone with
    | none => { model := "panic", oracle, tags := "tozone-panic" }
    | some z =>
      let t := Hosts.tryFromZone z
      let res4 := (sortedKeys h.v4).map (fun n => showZoneResult RT_A (z.resolve n RT_A))
      let res6 := (sortedKeys h.v6).map (fun n => showZoneResult RT_AAAA (z.resolve n RT_AAAA))
      { model := "Z:" ++ zoneRecordsSorted z ++ "!T:" ++ showTryFrom t ++ "!R:" ++ "^".intercalate (res4 ++ res6),
        oracle, tags := (if pre then "pre" else "nopre") ++ s!"/n{min (h.v4.length + h.v6.length) 9}" }

def cmdHostsMerge (a b impl : String) : Result :=
  match parseHostsDump a, parseHostsDump b with
  | some ha, some hb =>
    let m := ha.merge hb
    -- specification: `b` wins per (name, family), everything else of `a` stays
    let expect : Hosts :=
      { v4 := ha.v4.filter (fun kv => (hb.v4.get kv.1).isNone) ++ hb.v4,
        v6 := ha.v6.filter (fun kv => (hb.v6.get kv.1).isNone) ++ hb.v6 }
    let pre := keysNodup ha.v4 && keysNodup ha.v6 && keysNodup hb.v4 && keysNodup hb.v6
    { model := showHostsDump m,
      oracle := if impl = "panic" then "fail:C17:hosts-merge-panic"
                else if !pre || impl = showHostsDump expect then "ok" else "fail:C14:merge-later-file-does-not-win,fail:C12:later-hosts-file-does-not-override",
      tags := s!"n{min (m.v4.length + m.v6.length) 9}" }
  | _, _ => bad "hostsdump"

/-- `from_zone_lossy` and `try_from` on an arbitrary zone (built from a zonespec). -/
def showIp : Option IpAddr → String
  | none => "none"
  | some (.v4 a) => s!"v4:{a}"
  | some (.v6 gs) => "v6:" ++ showGroups gs

def cmdHostsLossy (zspec impl : String) : Result :=
  match parseZoneSpec zspec with
  | none => bad "zonespec"
  | some zs =>
    match buildZone zs with
    | none => { model := "panic", oracle := "fail:C17:insert-panic", tags := "panic" }
    | some z =>
      let l := Hosts.fromZoneLossy z
      let t := Hosts.tryFromZone z
      { model := "L:" ++ showHostsDump l ++ "!T:" ++ showTryFrom t,
        oracle :=
          if impl = "panic" then "fail:C17:hosts-lossy-panic"
          else
            -- independent reading: every name holding an A (AAAA) record in the zone appears in the
            -- v4 (v6) map with one of its addresses, and nothing else appears
            match (impl.splitOn "!T:").headD "" |>.drop 2 |>.toString |> parseHostsDump with
            | none => "fail:C14:unparsable-impl-output"
            | some h =>
              let recs := z.allRecords
              let okFam (isV4 : Bool) : Bool :=
                recs.all (fun (n, zrs) =>
                  let addrs := zrs.filterMap (fun zr => match zr.fields with
                    | [.a x] => if isV4 && zr.rtype == RT_A then some (showIp (some (.v4 x))) else none
                    | [.aaaa g] => if !isV4 && zr.rtype == RT_AAAA then some (showIp (some (.v6 g))) else none
                    | _ => none)
                  let got : Option String := if isV4 then (AddrMap.get h.v4 n).map (fun x => showIp (some (.v4 x)))
                                             else (AddrMap.get h.v6 n).map (fun g => showIp (some (.v6 g)))
                  match got with
                  | none => addrs.isEmpty
                  | some a => addrs.contains a)
              if okFam true && okFam false then "ok" else "fail:C14:zone-to-hosts-drops-or-invents-a-mapping",
        tags := match t with | .ok _ => "try-ok" | .error .hasWildcardRecords => "try-wild" | .error _ => "try-other" }

def parseIpVal (s : String) : Option IpAddr :=
  match s.splitOn ":" with
  | ["v4", n] => n.toNat?.map .v4
  | ["v6", gs] => ((gs.splitOn "-").mapM String.toNat?).map .v6
  | _ => none

def cmdIpParse (hex impl : String) : Result :=
  match bytesOfHex hex with
  | none => bad "hex"
  | some bs =>
    let r := Ip.parseIpAddr bs
    { model := showIp r, oracle := if impl = "panic" then "fail:C17:ip-parse-panic" else "ok",
      tags := match r with | none => "none" | some (.v4 _) => "v4" | some (.v6 _) => "v6" }

def cmdIpShow (v impl : String) : Result :=
  match parseIpVal v with
  | none => bad "ipval"
  | some a =>
    let text := Ip.showIpAddr a
    -- print-then-parse on the model (the lemma the text round trip rests on)
    let back := Ip.parseIpAddr text
    { model := hexOfBytes text,
      oracle := if back == some a then "ok" else "fail:C14:ip-print-parse",
      tags := (match a with | .v4 _ => "v4" | .v6 _ => "v6") ++
              (if text.any (· == 46) && text.any (· == 58) then "/mapped" else "") ++
              (if (text.zip (text.drop 1)).any (fun p => p.1 == 58 && p.2 == 58) then "/compressed" else "") }

end Resolved.Driver
