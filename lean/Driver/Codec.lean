/-
  Text codec of the line protocol shared with /verif/harness (src/codec.rs).
    bytes     lower-case hex, empty = "-"
    labels    each label's hex followed by '.', so root label = "." ; empty list = "~"
    name      <labels>/<len>
    fieldval  u16:n | u32:n | a:n | aaaa:g-g-g-g-g-g-g-g | o:<bytes> | n:<name>
    fields    fieldvals joined by ',' ; empty = "-"
    rr        name|rtype|rclass|ttl|fields
    rrs       rr joined by ';' ; empty = "-"
    question  name|qtype|qclass
    message   H:id,qr,op,aa,tc,rd,ra,rc Q:<questions;> AN:<rrs> NS:<rrs> AR:<rrs>   (space separated)
-/
import Resolved.Model.Wire

namespace Resolved.Codec

def hexDigit (n : Nat) : Char :=
  if n < 10 then Char.ofNat (48 + n) else Char.ofNat (87 + n)

def hexOfBytes (bs : List UInt8) : String :=
  if bs.isEmpty then "-"
  else String.ofList (bs.flatMap fun b => [hexDigit (b.toNat / 16), hexDigit (b.toNat % 16)])

def hexVal (c : Char) : Option Nat :=
  if '0' ≤ c ∧ c ≤ '9' then some (c.toNat - 48)
  else if 'a' ≤ c ∧ c ≤ 'f' then some (c.toNat - 87)
  else if 'A' ≤ c ∧ c ≤ 'F' then some (c.toNat - 55)
  else none

def bytesOfHexChars : List Char → Option (List UInt8)
  | [] => some []
  | a :: b :: rest =>
    match hexVal a, hexVal b, bytesOfHexChars rest with
    | some x, some y, some r => some (UInt8.ofNat (x * 16 + y) :: r)
    | _, _, _ => none
  | _ => none

def bytesOfHex (s : String) : Option (List UInt8) :=
  if s = "-" then some [] else bytesOfHexChars s.toList

/-- hex without the "-" convention (used inside labels, where empty is the empty string). -/
def rawHex (bs : List UInt8) : String :=
  String.ofList (bs.flatMap fun b => [hexDigit (b.toNat / 16), hexDigit (b.toNat % 16)])

def showLabels (ls : List Label) : String :=
  if ls.isEmpty then "~" else String.join (ls.map fun l => rawHex l ++ ".")

def parseLabels (s : String) : Option (List Label) :=
  if s = "~" then some []
  else
    let parts := s.splitOn "."
    -- "a.b." splits to ["a","b",""]; the final piece must be empty
    match parts.reverse with
    | "" :: revInit => revInit.reverse.mapM (fun p => bytesOfHexChars p.toList)
    | _ => none

def showName (n : Name) : String := showLabels n.labels ++ "/" ++ toString n.len

def parseName (s : String) : Option Name :=
  match s.splitOn "/" with
  | [ls, len] =>
    match parseLabels ls, len.toNat? with
    | some labels, some len => some ⟨labels, len⟩
    | _, _ => none
  | _ => none

def showFieldVal : FieldVal → String
  | .u16 n => "u16:" ++ toString n
  | .u32 n => "u32:" ++ toString n
  | .a n => "a:" ++ toString n
  | .aaaa gs => "aaaa:" ++ "-".intercalate (gs.map toString)
  | .opaque bs => "o:" ++ hexOfBytes bs
  | .name n => "n:" ++ showName n

def parseFieldVal (s : String) : Option FieldVal :=
  match s.splitOn ":" with
  | ["u16", n] => n.toNat?.map .u16
  | ["u32", n] => n.toNat?.map .u32
  | ["a", n] => n.toNat?.map .a
  | ["aaaa", gs] => ((gs.splitOn "-").mapM String.toNat?).map .aaaa
  | ["o", h] => (bytesOfHex h).map .opaque
  | ["n", n] => (parseName n).map .name
  | _ => none

def showFields (fs : List FieldVal) : String :=
  if fs.isEmpty then "-" else ",".intercalate (fs.map showFieldVal)

def parseFields (s : String) : Option (List FieldVal) :=
  if s = "-" then some [] else (s.splitOn ",").mapM parseFieldVal

def showRR (r : RR) : String :=
  "|".intercalate [showName r.name, toString r.rtype, toString r.rclass, toString r.ttl, showFields r.fields]

def parseRR (s : String) : Option RR :=
  match s.splitOn "|" with
  | [n, t, c, ttl, fs] =>
    match parseName n, t.toNat?, c.toNat?, ttl.toNat?, parseFields fs with
    | some name, some rtype, some rclass, some ttl, some fields => some { name, rtype, rclass, ttl, fields }
    | _, _, _, _, _ => none
  | _ => none

def showRRs (rs : List RR) : String :=
  if rs.isEmpty then "-" else ";".intercalate (rs.map showRR)

def parseRRs (s : String) : Option (List RR) :=
  if s = "-" then some [] else (s.splitOn ";").mapM parseRR

def showQuestion (q : Question) : String :=
  "|".intercalate [showName q.name, toString q.qtype, toString q.qclass]

def parseQuestion (s : String) : Option Question :=
  match s.splitOn "|" with
  | [n, t, c] =>
    match parseName n, t.toNat?, c.toNat? with
    | some name, some qtype, some qclass => some { name, qtype, qclass }
    | _, _, _ => none
  | _ => none

def showQuestions (qs : List Question) : String :=
  if qs.isEmpty then "-" else ";".intercalate (qs.map showQuestion)

def parseQuestions (s : String) : Option (List Question) :=
  if s = "-" then some [] else (s.splitOn ";").mapM parseQuestion

def b2s (b : Bool) : String := if b then "1" else "0"

def s2b (s : String) : Option Bool :=
  if s = "1" then some true else if s = "0" then some false else none

def showHeader (h : Header) : String :=
  ",".intercalate [toString h.id, b2s h.isResponse, toString h.opcode, b2s h.isAuthoritative,
    b2s h.isTruncated, b2s h.recursionDesired, b2s h.recursionAvailable, toString h.rcode]

def parseHeader (s : String) : Option Header :=
  match s.splitOn "," with
  | [id, qr, op, aa, tc, rd, ra, rc] =>
    match id.toNat?, s2b qr, op.toNat?, s2b aa, s2b tc, s2b rd, s2b ra, rc.toNat? with
    | some id, some qr, some op, some aa, some tc, some rd, some ra, some rc =>
      some { id, isResponse := qr, opcode := op, isAuthoritative := aa, isTruncated := tc,
             recursionDesired := rd, recursionAvailable := ra, rcode := rc }
    | _, _, _, _, _, _, _, _ => none
  | _ => none

def showMessage (m : Message) : String :=
  " ".intercalate ["H:" ++ showHeader m.header, "Q:" ++ showQuestions m.questions,
    "AN:" ++ showRRs m.answers, "NS:" ++ showRRs m.authority, "AR:" ++ showRRs m.additional]

def stripPrefix? (s pre : String) : Option String :=
  if s.startsWith pre then some (s.drop pre.length).toString else none

def parseMessage (s : String) : Option Message :=
  match s.splitOn " " with
  | [h, q, an, ns, ar] =>
    match (stripPrefix? h "H:").bind parseHeader, (stripPrefix? q "Q:").bind parseQuestions,
          (stripPrefix? an "AN:").bind parseRRs, (stripPrefix? ns "NS:").bind parseRRs,
          (stripPrefix? ar "AR:").bind parseRRs with
    | some header, some questions, some answers, some authority, some additional =>
      some { header, questions, answers, authority, additional }
    | _, _, _, _, _ => none
  | _ => none

def showDErr : DErr → String
  | .completelyBusted => "CompletelyBusted"
  | .headerTooShort i => s!"HeaderTooShort({i})"
  | .questionTooShort i => s!"QuestionTooShort({i})"
  | .resourceRecordTooShort i => s!"ResourceRecordTooShort({i})"
  | .resourceRecordInvalid i => s!"ResourceRecordInvalid({i})"
  | .domainTooShort i => s!"DomainTooShort({i})"
  | .domainTooLong i => s!"DomainTooLong({i})"
  | .domainPointerInvalid i => s!"DomainPointerInvalid({i})"
  | .domainLabelInvalid i => s!"DomainLabelInvalid({i})"

def showOptName : Option Name → String
  | none => "none"
  | some n => showName n

end Resolved.Codec
