/-
  Whole-resolution scenarios (C01, C07, C08, C10, C18).
    resolve <family> <mode> <zonespecs ^> <cache rrs> <script ^> <question> <expect>  →  impl
    mode    auth | rec:<o4|p4|p6|o6>:<port> | fwd:<addr>:<port>          addr = 4:<u32> | 6:g-…-g
    script  <addr>~<t|u>~<qname>~<qtype>=<delayMs>:<none|garbage|msg:<message>|wrongid:<message>>
    impl    <result> # <log> # <elapsedMs> # <cache dump>
    result  ok auth <rrs> <soa> | ok nxdomain - <soa> | ok nonauth <rrs> <soa|-> | err <Kind> | panic
    log     <addr>~<port>~<t|u>~<qname>~<qtype>~<rd> joined by ';'
-/
import Driver.Base
import Driver.ZoneCmds
import Driver.CacheCmds
import Resolved.Model.Resolver

namespace Resolved.Driver

open Resolved Resolved.Codec

def parseAddr (s : String) : Option FieldVal :=
  if s.startsWith "4:" then (s.drop 2).toString.toNat?.map .a
  else if s.startsWith "6:" then (((s.drop 2).toString.splitOn "-").mapM String.toNat?).map .aaaa
  else none

def showAddr : FieldVal → String
  | .a n => s!"4:{n}"
  | .aaaa gs => "6:" ++ "-".intercalate (gs.map toString)
  | _ => "?"

inductive RMode where
  | auth
  | recursive (pm : ProtocolMode) (port : Nat)
  | fwd (addr : FieldVal) (port : Nat)

def parseMode (s : String) : Option RMode :=
  if s = "auth" then some .auth
  else
    match s.splitOn ":" with
    | ["rec", pm, port] =>
      let pm? : Option ProtocolMode := match pm with
        | "o4" => some .onlyV4 | "p4" => some .preferV4 | "p6" => some .preferV6 | "o6" => some .onlyV6 | _ => none
      match pm?, port.toNat? with
      | some pm, some port => some (.recursive pm port)
      | _, _ => none
    | ["fwd", fam, a, port] =>
      match parseAddr (fam ++ ":" ++ a), port.toNat? with
      | some addr, some port => some (.fwd addr port)
      | _, _ => none
    | _ => none

structure ScriptEntry where
  addr : FieldVal
  tcp : Bool
  qname : Name
  qtype : Nat
  delayMs : Nat
  reply : Option Message        -- what survives the wire decoder, with the ID relative to the request (0 = same)
  raw : Option Message          -- the scripted message (for provenance), if any

def parseScriptEntry (s : String) : Option ScriptEntry :=
  match s.splitOn "=" with
  | key :: rest =>
    let val := "=".intercalate rest
    match key.splitOn "~" with
    | [a, p, qn, qt] =>
      let colon := val.splitOn ":"
      match parseAddr a, parseName qn, qt.toNat?, colon with
      | some addr, some qname, some qtype, d :: kind :: more =>
        match d.toNat? with
        | none => none
        | some delayMs =>
          let body := ":".intercalate more
          let tcp := p == "t"
          if kind = "none" then some { addr, tcp, qname, qtype, delayMs, reply := none, raw := none }
          else if kind = "garbage" then some { addr, tcp, qname, qtype, delayMs, reply := none, raw := none }
          else
            match parseMessage body with
            | none => none
            | some m =>
              let id := if kind = "msg" then 0 else 1
              let m' := { m with header := { m.header with id := id } }
              some { addr, tcp, qname, qtype, delayMs, reply := some m', raw := some m }
      | _, _, _, _ => none
    | _ => none
  | _ => none

def oracleOf (script : List ScriptEntry) : Oracle := fun ex =>
  match script.reverse.find? (fun e => e.addr == ex.addr && e.tcp == ex.tcp && e.qname == ex.question.name
                                && e.qtype == ex.question.qtype) with
  | some e => { delayMs := e.delayMs, reply := e.reply }
  | none => { delayMs := 0, reply := none }

def showResolved (anyQ : Bool) : Except ResolutionError ResolvedRecord → String
  | .ok (.authoritative rrs soa) => "ok auth " ++ (if anyQ then showRRsSorted rrs else showRRs rrs) ++ " " ++ showRR soa
  | .ok (.authoritativeNameError soa) => "ok nxdomain - " ++ showRR soa
  | .ok (.nonAuthoritative rrs soa) => "ok nonauth " ++ (if anyQ then showRRsSorted rrs else showRRs rrs) ++ " " ++ (match soa with | some s => showRR s | none => "-")
  | .error .timeout => "err Timeout"
  | .error .recursionLimit => "err RecursionLimit"
  | .error (.duplicateQuestion _) => "err DuplicateQuestion"
  | .error (.deadEnd _) => "err DeadEnd"
  | .error .localDelegationMissingNS => "err LocalDelegationMissingNS"
  | .error .cacheTypeMismatch => "err CacheTypeMismatch"
  | .error .outOfFuel => "err OUT-OF-FUEL"

def showExchange (e : Exchange) : String :=
  s!"{showAddr e.addr}~{e.port}~{if e.tcp then "t" else "u"}~{showName e.question.name}~{e.question.qtype}~{b2s e.recursionDesired}"

def showLog (l : List Exchange) : String := if l.isEmpty then "-" else ";".intercalate (l.map showExchange)

structure ImplOut where
  result : String
  kind : String                -- auth | nxdomain | nonauth | err | panic
  rrs : List RR
  soa : Option RR
  log : List (String × Nat)    -- (addr, port)
  logFull : List (String × Bool × String × Nat)   -- (addr, tcp, qname, qtype)
  logRaw : String
  elapsed : Nat

def parseImpl (s : String) : Option ImplOut :=
  if s = "panic" || s = "hang" then some { result := s, kind := s, rrs := [], soa := none, log := [], logFull := [], logRaw := "", elapsed := 0 }
  else
    match s.splitOn " # " with
    | [res, log, el, _dump] =>
      let logEntries := if log = "-" then [] else (log.splitOn ";").filterMap (fun e =>
        match e.splitOn "~" with
        | a :: p :: _ => p.toNat?.map (fun p => (a, p))
        | _ => none)
      let logFull := if log = "-" then [] else (log.splitOn ";").filterMap (fun e =>
        match e.splitOn "~" with
        | [a, _, t, qn, qt, _] => qt.toNat?.map (fun qt => (a, t == "t", qn, qt))
        | _ => none)
      match res.splitOn " ", el.toNat? with
      | ["ok", kind, rrs, soa], some elapsed =>
        match parseRRs rrs, (if soa = "-" then some none else (parseRR soa).map some) with
        | some rrs, some soa => some { result := res, kind, rrs, soa, log := logEntries, logFull, logRaw := log, elapsed }
        | _, _ => none
      | "err" :: _, some elapsed => some { result := res, kind := "err", rrs := [], soa := none, log := logEntries, logFull, logRaw := log, elapsed }
      | _, _ => none
    | _ => none

def noTtl (r : RR) : RR := { r with ttl := 0 }

def permEq (a b : List RR) : Bool := a.length == b.length && a.all (b.contains ·) && b.all (a.contains ·)

/-- `ChainShaped qn t rrs` (C10): CNAMEs in chain order from the question name, owners distinct,
    then only records of the asked type owned by the final target. -/
def chainShaped (qn : Name) (qtype : Nat) (rrs : List RR) : Bool :=
  let rec go (cur : Name) (seen : List Name) : List RR → Bool
    | [] => true
    | rr :: rest =>
      match cnameTarget rr with
      | some t =>
        if rr.name == cur && !seen.contains cur then go t (cur :: seen) rest
        else false
      | none => (rr :: rest).all (fun f => f.name == cur && f.rtype == qtype && (cnameTarget f).isNone)
  go qn [] rrs

/-- all records a zone holds (owner, record), for provenance / ownership checks -/
def zoneAllRRs (z : Zone) : List RR :=
  (z.allRecords.flatMap (fun (n, zrs) => zrs.map (·.toRR n)))

def isBeneathDelegation (z : Zone) (name : Name) : Bool :=
  -- a non-apex ancestor-or-self of `name` inside z holding NS records
  match z.relativeDomain name with
  | none => false
  | some rel =>
    (ZSpec.properSuffixes rel).any (fun d =>
      match Name.fromLabels (d ++ z.apex.labels) with
      | some dn => (zoneAllRRs z).any (fun rr => rr.name == dn && rr.rtype == RT_NS)
      | none => false)

def cmdResolve (family mode zones cache script question expect impl : String) : Result :=
  let zss? : Option (List ZoneSpec) := if zones = "-" then some [] else (zones.splitOn "^").mapM parseZoneSpec
  let script? : Option (List ScriptEntry) := if script = "-" then some [] else (script.splitOn "^").mapM parseScriptEntry
  -- optional prefix `S<k>:` = the desired size of the shared cache (default 512)
  -- and `T<s>:` = the clock is advanced by s seconds between loading the cache and the resolution
  let strip (pfx : String) (dflt : Nat) (c : String) : Nat × String :=
    if c.startsWith pfx then
      match (c.drop 1).toString.splitOn ":" with
      | k :: rest => (k.toNat?.getD dflt, ":".intercalate rest)
      | _ => (dflt, c)
    else (dflt, c)
  let (cacheSize, cache) := strip "S" 512 cache
  let (advanceS, cache) := strip "T" 0 cache
  match parseMode mode, zss?, parseRRs cache, script?, parseQuestion question with
  | some rmode, some zss, some cacheRRs, some script, some q =>
    match (zss.mapM buildZone).bind (fun zs => zs.foldl (fun acc z => acc.bind (·.insertMerge z)) (some Zones.empty)) with
    | none => { model := "panic", oracle := "fail:C17:zone-build-panic" }
    | some allZones =>
      let t0 := 1000000000
      let cache0 := sharedInsertAll (PCache.new cacheSize) cacheRRs t0
      let ctx : Ctx := { zones := allZones, cache := cache0, now := t0 + advanceS * 1000000000, stack := [] }
      let oracle := oracleOf script
      -- model run
      let (res, log, elapsed, cacheAfter) : Except ResolutionError ResolvedRecord × List Exchange × Nat × PCache :=
        match rmode with
        | .auth =>
          let (c, r) := resolveAuthoritativeOnly ctx q
          (r, [], 0, c.cache)
        | .recursive pm port =>
          let (st, r) := resolveRecursive { mode := pm, port, oracle, hostOrder := id } ctx q
          (r, st.run.log, st.run.elapsedMs, st.ctx.cache)
        | .fwd addr port =>
          let (st, r) := resolveForwarding { addr, port, oracle } ctx q
          (r, st.run.log, st.run.elapsedMs, st.ctx.cache)
      let modelOut := s!"{showResolved (isWildcardQ q.qtype) res} # {showLog log} # {elapsed} # {showDump cacheAfter}"
      -- oracles on the implementation's output
      let verdicts : List String :=
        match parseImpl impl with
        | none => ["fail:C08:unparsable-output"]
        | some io =>
          if io.kind = "panic" then ["fail:C08:panic"]
          else if io.kind = "hang" then ["fail:C08:resolution-does-not-terminate", "fail:C10:alias-loop-hangs"]
          else
            let okRes := io.kind != "err"
            -- C08: time budget, provenance
            let known : List RR :=
              (allZones.zones.flatMap (fun kv => zoneAllRRs kv.2 ++ (kv.2.allWildcardRecords.flatMap (fun (n, zrs) => zrs.map (·.toRR n)))))
              ++ cacheRRs ++ script.flatMap (fun e => match e.raw with
                  | some m => m.answers ++ m.authority ++ m.additional
                  | none => [])
            let provOk := io.rrs.all (fun rr =>
              known.any (fun k => k.rtype == rr.rtype && k.fields == rr.fields && (k.name == rr.name || true)))
            -- each exchange within 5 s: the time spent is at most the sum, over the exchanges made, of
            -- min(scripted delay, 5 s); and a reply scripted to arrive after 5 s is never a source
            let entryOf (e : String × Bool × String × Nat) : Option ScriptEntry :=
              script.reverse.find? (fun se => showAddr se.addr == e.1 && se.tcp == e.2.1 && showName se.qname == e.2.2.1 && se.qtype == e.2.2.2)
            let timeBound := (io.logFull.map (fun e => match entryOf e with
              | some se => min se.delayMs 5000
              | none => 0)).sum
            let knownInTime : List RR :=
              (allZones.zones.flatMap (fun kv => zoneAllRRs kv.2 ++ (kv.2.allWildcardRecords.flatMap (fun (n, zrs) => zrs.map (·.toRR n)))))
              ++ cacheRRs ++ script.flatMap (fun e => match e.raw with
                  | some m => if e.delayMs ≥ 5000 then [] else m.answers ++ m.authority ++ m.additional
                  | none => [])
            let provInTime := io.rrs.all (fun rr => knownInTime.any (fun k => k.rtype == rr.rtype && k.fields == rr.fields))
            -- C05 through the resolver: a cached record whose TTL had run out when the question came is
            -- no source of an answer record (owner, type and data found only there)
            let liveSources : List RR :=
              (allZones.zones.flatMap (fun kv => zoneAllRRs kv.2 ++ (kv.2.allWildcardRecords.flatMap (fun (n, zrs) => zrs.map (·.toRR n)))))
              ++ cacheRRs.filter (fun r => r.ttl > advanceS)
              ++ script.flatMap (fun e => match e.raw with
                  | some m => m.answers ++ m.authority ++ m.additional
                  | none => [])
            -- C06 through the resolver: (1) a reply that does not match its request (other ID, not a
            -- response, other opcode, TC set, rcode other than NOERROR/NXDOMAIN, other question) is discarded
            -- as a whole: no answer record may have such replies as its only source; (2) the stranger named
            -- by an upward referral (fault "evil", 203.0.113.66) is never contacted
            let matching (se : ScriptEntry) : Bool := match se.reply with
              | some m => m.header.id == 0 && m.header.isResponse && m.header.opcode == 0 && !m.header.isTruncated
                  && (m.header.rcode == 0 || m.header.rcode == 3)
                  && (match m.questions with
                      | [mq] => mq.name == se.qname && mq.qtype == se.qtype
                      | _ => false)
              | none => false
            let sourcesOk : List RR :=
              (allZones.zones.flatMap (fun kv => zoneAllRRs kv.2 ++ (kv.2.allWildcardRecords.flatMap (fun (n, zrs) => zrs.map (·.toRR n)))))
              ++ cacheRRs ++ (script.filter matching).flatMap (fun e => match e.raw with
                  | some m => m.answers ++ m.authority ++ m.additional
                  | none => [])
            let c06 : List String :=
              (if okRes && provOk && !io.rrs.all (fun rr => sourcesOk.any (fun k => k.rtype == rr.rtype && k.fields == rr.fields))
               then ["fail:C06:record-from-a-discarded-reply"] else [])
              ++ (if io.logFull.any (fun e => e.1 == "4:3405803842")
                  then ["fail:C06:followed-a-referral-not-deeper-than-the-delegation-in-use"] else [])
            -- one attempt per transport in one exchange: a TCP attempt is never followed at once by the same
            -- TCP attempt (a new exchange with the same server starts with UDP again: these requests fit)
            let twice := (io.logFull.zip (io.logFull.drop 1)).any (fun (a, b) => a == b && a.2.1)
            let c08b : List String := if twice then ["fail:C08:transport-tried-twice-in-one-exchange"] else []
            let c05 : List String :=
              if advanceS > 0 && okRes && !io.rrs.all (fun rr => liveSources.any (fun k => k.rtype == rr.rtype && k.fields == rr.fields))
              then ["fail:C05:expired-cached-record-used-by-the-resolver"] else []
            let c08 := (if io.elapsed > 60000 then ["fail:C08:over-60s-budget"] else [])
              ++ (if okRes && !provOk then ["fail:C08:record-from-nowhere"] else [])
              ++ (if io.kind != "panic" && io.kind != "hang" && io.logFull.length == io.log.length && io.elapsed > timeBound
                  then ["fail:C08:exchange-over-5s"] else [])
              ++ (if okRes && provOk && !provInTime then ["fail:C08:late-reply-used"] else [])
            -- C18: address family, port, forwarder
            let c18 := match rmode with
              | .auth => if io.log.isEmpty then [] else ["fail:C18:auth-only-contacted-upstream"]
              | .recursive pm port =>
                (if pm == .onlyV4 && io.log.any (fun e => !e.1.startsWith "4:") then ["fail:C18:only-v4-used-v6"] else [])
                ++ (if pm == .onlyV6 && io.log.any (fun e => !e.1.startsWith "6:") then ["fail:C18:only-v6-used-v4"] else [])
                ++ (if io.log.any (fun e => e.2 != port) then ["fail:C18:wrong-port"] else [])
              | .fwd addr port =>
                if io.log.any (fun e => e.1 != showAddr addr || e.2 != port) then ["fail:C18:not-the-forwarder"] else []
            -- C18 prefer-vX: never contact a nameserver at an address of the other family while holding
            -- an address of the preferred family for it (held = local zones + records of earlier replies);
            -- judged on consistent universes only
            let c18p : List String :=
              match rmode with
              | .recursive pm _ =>
                if (pm == .preferV4 || pm == .preferV6) && family.startsWith "universe" then
                  let wantV4 := pm == .preferV4
                  let zoneRRs := allZones.zones.flatMap (fun kv => zoneAllRRs kv.2)
                  let replyOf (e : String × Bool × String × Nat) : List RR :=
                    match script.reverse.find? (fun se => showAddr se.addr == e.1 && se.tcp == e.2.1 && showName se.qname == e.2.2.1 && se.qtype == e.2.2.2) with
                    | some se => (match se.raw with
                        -- a record with TTL 0 is used for the transaction, never held (it is not cached)
                        | some m => (m.answers ++ m.authority ++ m.additional).filter (fun rr => rr.ttl > 0)
                        | none => [])
                    | none => []
                  let addrText (rr : RR) : Option String := match rr.fields with
                    | [.a x] => some (showAddr (.a x))
                    | [.aaaa g] => some (showAddr (.aaaa g))
                    | _ => none
                  let bad := (List.range io.logFull.length).any (fun i =>
                    match io.logFull[i]? with
                    | none => false
                    | some e =>
                      let isV4 := e.1.startsWith "4:"
                      if isV4 == wantV4 then false
                      else
                        let known := zoneRRs ++ cacheRRs ++ (io.logFull.take i).flatMap replyOf
                        let hosts := known.filterMap (fun rr => if addrText rr == some e.1 then some rr.name else none)
                        hosts.any (fun h => known.any (fun rr => rr.name == h &&
                          (if wantV4 then rr.rtype == RT_A else rr.rtype == RT_AAAA))))
                  if bad then ["fail:C18:other-family-used-while-holding-preferred-address"] else []
                else []
              | _ => []
            -- C10: chain shape
            let localIsDelegation := match (resolveLocal (Gen.RECURSION_LIMIT + 1) ctx q).2 with
              | .ok (.delegation _ _ _) => true
              | _ => false
            -- D7: a forwarder's answer section is passed on as it is; adversarial forwarder replies
            -- (family "faults") are outside the chain-shape claim, which assumes upstream lists its chain
            let d7 := !(family == "faults" && (match rmode with | .fwd _ _ => true | _ => false))
            let c10 :=
              if d7 && okRes && q.qtype != RT_CNAME && !isWildcardQ q.qtype && !localIsDelegation
                  && !chainShaped q.name q.qtype io.rrs then ["fail:C10:not-chain-shaped"] else []
            -- C01
            let c01 : List String :=
              match allZones.get q.name with
              | none => if io.kind = "nxdomain" then ["fail:C01:nxdomain-without-zone"] else []
              | some z =>
                let zr := z.resolve q.name q.qtype
                if z.isAuthoritative then
                  match zr, z.soaRR with
                  | some (.answer rrs), some soa =>
                    if io.kind = "auth" && permEq io.rrs rrs && io.soa == some soa && io.log.isEmpty then []
                    else ["fail:C01:authoritative-answer-not-from-zone-alone"]
                  | some .nameError, some soa =>
                    if io.kind = "nxdomain" && io.soa == some soa && io.log.isEmpty then []
                    else ["fail:C01:authoritative-nameerror-not-reported"]
                  | some (.cname _ rr), some _ =>
                    -- the zone answers the alias itself: its CNAME record leads the answer and the question
                    -- as asked never goes upstream (only the alias target may, if it is delegated away)
                    (if io.kind = "nxdomain" then ["fail:C01:nxdomain-not-from-zone"] else [])
                    ++ (if okRes && q.qtype != RT_CNAME && !isWildcardQ q.qtype && io.rrs.head? != some rr
                        then ["fail:C01:local-alias-record-not-leading-the-answer"] else [])
                    ++ (if io.logFull.any (fun e => e.2.2.1 == showName q.name)
                        then ["fail:C01:locally-answered-question-sent-upstream"] else [])
                  | _, _ => if io.kind = "nxdomain" then ["fail:C01:nxdomain-not-from-zone"] else []
                else
                  (if io.kind = "nxdomain" then ["fail:C01:nxdomain-from-nonauthoritative"] else [])
                  ++ (match zr with
                      | some (.answer rrs) =>
                        if !isWildcardQ q.qtype && !rrs.isEmpty then
                          if io.kind = "nonauth" && permEq io.rrs rrs && io.soa.isNone && io.log.isEmpty then []
                          else ["fail:C01:local-override-not-exact"]
                        else if isWildcardQ q.qtype && !rrs.isEmpty && okRes then
                          -- ANY: every local record stays, and no cached/upstream record of a (name,type)
                          -- the local data holds is added or substituted
                          let extra := io.rrs.filter (fun r => !rrs.contains r)
                          if !rrs.all (io.rrs.contains ·) then ["fail:C01:local-record-dropped-from-any-answer"]
                          else if extra.any (fun e => rrs.any (fun l => l.name == e.name && l.rtype == e.rtype)) then
                            ["fail:C01:local-record-supplemented-by-foreign-record"]
                          else []
                        else []
                      | _ => [])
            -- C01 (d): records owned by an authoritative zone come from that zone
            let foreign := io.rrs.filter (fun rr =>
                  match allZones.get rr.name with
                  | some z => z.isAuthoritative && !isBeneathDelegation z rr.name &&
                      !((zoneAllRRs z).any (fun k => k.name == rr.name && k.rtype == rr.rtype && k.fields == rr.fields))
                      && (z.allWildcardRecords.isEmpty)
                  | none => false)
            let fromUpstream (rr : RR) : Bool := script.any (fun e => match e.raw with
              | some m => (m.answers ++ m.authority ++ m.additional).any (fun k => k.name == rr.name && k.rtype == rr.rtype && k.fields == rr.fields)
              | none => false)
            let c01d :=
              if !okRes || foreign.isEmpty then []
              else if foreign.all fromUpstream then ["fail:C01:K1-foreign-record-for-owned-name"]
              else ["fail:C01:cached-record-used-for-locally-owned-name"]
            -- C07
            let c07 : List String :=
              if expect = "-" || expect = "unknown" then []
              else
                let applicable := match rmode with
                  | .recursive pm _ => family != "universe1-dual" || pm == .preferV4 || pm == .preferV6
                  | _ => false
                if !applicable then []
                else
                  match expect.splitOn " soa:" with
                  | [rrsS, soaS] =>
                    match parseRRs rrsS with
                    | none => ["fail:C07:bad-expect"]
                    | some erRs =>
                      let e := erRs.map noTtl
                      let i := io.rrs.map noTtl
                      let sameSet := e.length == i.length && e.all (i.contains ·) && i.all (e.contains ·)
                      let cn (l : List RR) := l.filter (fun r => (cnameTarget r).isSome)
                      let orderOk := q.qtype == RT_CNAME || isWildcardQ q.qtype || cn e == cn i
                      let soaOk := if soaS = "-" then true
                        else match io.soa with
                          | some s => s.rtype == RT_SOA && showName s.name == soaS
                          | none => false
                      -- open finding C07-K1: a referral whose glue has TTL 0 cannot be followed (the glue
                      -- reaches the next iteration only through the cache, which does not store TTL 0)
                      let glueTtl0 := script.any (fun se => match se.raw with
                        | some m => m.additional.any (fun rr => rr.ttl == 0 && (rr.rtype == RT_A || rr.rtype == RT_AAAA))
                        | none => false)
                      if io.kind != "nonauth" then
                        (if glueTtl0 && io.result == "err DeadEnd" then ["fail:C07:K1-glue-ttl0-descent-fails"]
                         else ["fail:C07:not-resolved:" ++ io.kind])
                      else if !sameSet then ["fail:C07:records-differ-from-authoritative-data"]
                      else if !orderOk then ["fail:C07:chain-order"]
                      else if !soaOk then ["fail:C07:soa"]
                      else []
                  | _ => ["fail:C07:bad-expect"]
            c08 ++ c08b ++ c05 ++ c06 ++ c18 ++ c18p ++ c10 ++ c01 ++ c01d ++ c07
      let oracle := if verdicts.isEmpty then "ok" else ",".intercalate verdicts
      -- with several nameservers per zone the referral host order comes out of a HashSet:
      -- the model is not authoritative there, only the specification oracles judge the case
      let modelAuthoritative := family != "universeN" && family != "mutual"
      let resTag := ((showResolved false res).splitOn " ").take 2
      { model := if modelAuthoritative then modelOut else impl, oracle,
        tags := s!"{family}/{(mode.splitOn ":").headD ""}/{" ".intercalate resTag}/x{log.length}" }
  | _, _, _, _, _ => bad "args"

end Resolved.Driver
