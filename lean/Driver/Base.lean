import Driver.Codec

namespace Resolved.Driver

structure Result where
  model : String
  oracle : String := "ok"
  tags : String := ""

def bad (why : String) : Result := { model := "bad-op:" ++ why, oracle := "bad-op" }

end Resolved.Driver
