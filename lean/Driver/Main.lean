/-
  vdriver: one line in → one line out.
  input :  cmd \t arg … \t implOutput        (the last field is what the implementation returned)
  output:  modelOutput \t oracleVerdict \t tags
-/
import Driver.Codec
import Driver.Cmds

open Resolved

partial def loop (h : IO.FS.Stream) (out : IO.FS.Stream) : IO Unit := do
  let line ← h.getLine
  if line.isEmpty then return ()
  let line := (line.dropEndWhile (fun c => c == '\n' || c == '\r')).toString
  let fields := line.splitOn "\t"
  let r := Driver.dispatch fields
  out.putStrLn (r.model ++ "\t" ++ r.oracle ++ "\t" ++ r.tags)
  loop h out

def main : IO Unit := do
  let out ← IO.getStdout
  loop (← IO.getStdin) out
  out.flush
