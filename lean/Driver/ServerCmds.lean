/-
  Server front end and reload (C09, C19): the real binary's replies against the model and the spec.
    server.udp  <mode> <zones> <query hex>            → noreply | server-silent | <reply hex>[+<reply hex>…]
    server.tcp  <mode> <zones> <message hex>          → <hex of everything received> | - | conn-failed
    server.tcp-short <mode> <zones> <sent hex> <announced length> → idem
    server.alive <mode>                               → alive | dead
    server.reload <step>#<step>…                      → <out>#<out>…#alive|dead
-/
import Driver.Base
import Driver.ZoneCmds
import Resolved.Model.Server
import Resolved.Spec.RefDecode

namespace Resolved.Driver

open Resolved Resolved.Codec

def configZones (zss : List ZoneSpec) : Option Zones :=
  match zss.mapM buildZone with
  | none => none
  | some zs => loadConfiguration (zs.map some) (some Zone.default)

def firstQType (m : Message) : Nat := match m.questions with | q :: _ => q.qtype | [] => 0

def sortRRs (rs : List RR) : List RR :=
  (rs.map (fun r => (showRR r, r))).mergeSort (fun a b => decide (a.1 ≤ b.1)) |>.map (·.2)

/-- a message up to the order of records inside each section (sections built from hash maps). -/
def canonMsg (m : Message) : String :=
  showMessage { m with answers := sortRRs m.answers, authority := sortRRs m.authority, additional := sortRRs m.additional }

def sameMessageBytes (a b : List UInt8) : Bool :=
  a == b ||
    (match Ref.message a, Ref.message b with
     | some (ma, _), some (mb, _) => canonMsg ma == canonMsg mb
     | _, _ => false)

def byteAt (bs : List UInt8) (i : Nat) : Nat := match bs[i]? with | some b => b.toNat | none => 0

/-- C09 checks on one reply `rb` to request `buf` (after any TCP prefix has been removed). -/
def checkReply (authOnly : Bool) (buf rb : List UInt8) (udp : Bool) : List String :=
  let parsed := decodeMessage buf
  let hdr : List String :=
    (if rb.length < 12 then ["fail:C09:reply-shorter-than-header"] else [])
    ++ (if byteAt rb 0 != byteAt buf 0 || byteAt rb 1 != byteAt buf 1 then ["fail:C09:id-not-echoed"] else [])
    ++ (if byteAt rb 2 / 128 != 1 then ["fail:C09:qr-not-set"] else [])
    ++ (if udp && rb.length > 512 then ["fail:C09:udp-reply-over-512"] else [])
  let tc := (byteAt rb 2 / 2) % 2 == 1
  let tcChecks : List String :=
    if udp then
      (if tc && rb.length != 512 then ["fail:C09:tc-set-but-not-cut"] else [])
    else []
  let rcode := byteAt rb 3 % 16
  let opcode := (byteAt rb 2 / 8) % 16
  let rd := byteAt rb 2 % 2 == 1
  let ra := byteAt rb 3 / 128 == 1
  let content : List String :=
    match parsed with
    | .error _ => if rcode != 1 then ["fail:C09:unparseable-not-formerr"] else []
    | .ok q =>
      (if rcode == 1 then ["fail:C09:formerr-for-parseable"] else [])
      ++ (if opcode != q.header.opcode then ["fail:C09:opcode-not-echoed"] else [])
      ++ (if rd != q.header.recursionDesired then ["fail:C09:rd-not-echoed"] else [])
      ++ (if (q.header.opcode != 0) != (rcode == 4) then ["fail:C09:notimp-iff-nonstandard-opcode"] else [])
      ++ (if q.header.opcode == 0 then
            let refuse := q.questions.length > 1 || q.questions.any questionIsUnknown
            (if refuse != (rcode == 5) then ["fail:C09:refused-iff-several-or-unknown"] else [])
            ++ (if ra != !authOnly then ["fail:C09:ra-iff-recursion-offered"] else [])
          else [])
      ++ (match (if tc then none else Ref.message rb) with
          | none => if tc then [] else ["fail:C09:reply-does-not-decode"]
          | some (m, _) =>
            (if m.questions != q.questions then ["fail:C09:question-not-echoed"] else [])
            ++ (match q.questions with
                | [qq] =>
                  if q.header.opcode == 0 && !questionIsUnknown qq && !isWildcardQ qq.qtype then
                    -- owners: the question name or a name on its CNAME chain
                    let chain := m.answers.foldl (fun (names : List Name) rr =>
                      match cnameTarget rr with
                      | some t => if names.contains rr.name then names ++ [t] else names
                      | none => names) [qq.name]
                    if m.answers.all (fun rr => chain.contains rr.name) then []
                    else if m.answers.all (fun rr => rr.rtype == RT_NS && qq.name.isSubdomainOf rr.name) then
                      ["fail:C09:K1-referral-in-answer-section"]
                    else ["fail:C09:answer-owner-not-question-or-chain"]
                  else []
                | _ => []))
  hdr ++ tcChecks ++ content

def joinVerdicts (vs : List String) : String := if vs.isEmpty then "ok" else ",".intercalate vs

def cmdServerUdp (mode zones qhex impl : String) : Result :=
  let zss? : Option (List ZoneSpec) := if zones = "-" then some [] else (zones.splitOn "^").mapM parseZoneSpec
  match zss?, bytesOfHex qhex with
  | some zss, some buf =>
    match configZones zss with
    | none => bad "zones"
    | some cfg =>
      let authOnly := mode == "auth"
      let expected := serveUdp authOnly (authOnlyResolver cfg) buf
      let expectReply := buf.length ≥ 2 && !(match decodeMessage buf with | .ok m => m.header.isResponse | .error _ => false)
      let (model, verdicts) : String × List String :=
        if impl == "server-silent" then ("?", ["fail:C09:server-stopped-answering"])
        else if impl == "noreply" then
          ((match expected with | none => "noreply" | some bs => hexOfBytes bs),
           if expectReply then ["fail:C09:no-reply-to-a-query"] else [])
        else if (impl.splitOn "+").length > 1 then ("?", ["fail:C09:more-than-one-reply"])
        else
          match bytesOfHex impl with
          | none => ("?", ["fail:C09:unparsable"])
          | some rb =>
            let m := match expected with
              | none => "noreply"
              | some bs => if sameMessageBytes bs rb then impl else hexOfBytes bs
            -- TC exactly when cut short: the complete reply's length is the model's
            let fullLen := match handleRawMessage authOnly (authOnlyResolver cfg) buf with
              | some full => (match encodeMessage full with | .ok bs => bs.length | .error _ => 0)
              | none => 0
            let tcSet := (byteAt rb 2 / 2) % 2 == 1
            let tcV := if fullLen > 0 && tcSet != decide (fullLen > 512) then ["fail:C09:tc-not-exactly-when-cut-short"] else []
            (m, (if !expectReply then ["fail:C09:replied-to-response-or-runt"] else []) ++ checkReply authOnly buf rb true ++ tcV)
      let tag := match decodeMessage buf with
        | .ok m => if m.header.isResponse then "response" else if m.header.opcode != 0 then "opcode" else s!"query-q{m.questions.length}"
        | .error _ => if buf.length < 2 then "runt" else "unparseable"
      { model, oracle := joinVerdicts verdicts, tags := "udp/" ++ tag }
  | _, _ => bad "args"

def cmdServerTcp (mode zones sent announce impl : String) : Result :=
  let zss? : Option (List ZoneSpec) := if zones = "-" then some [] else (zones.splitOn "^").mapM parseZoneSpec
  match zss?, bytesOfHex sent, announce.toNat? with
  | some zss, some sentBytes, some expectedLen =>
    match configZones zss with
    | none => bad "zones"
    | some cfg =>
      let authOnly := mode == "auth"
      let expected := serveTcp authOnly (authOnlyResolver cfg) expectedLen sentBytes
      -- the message is the announced prefix of what was sent (octets beyond it are not part of it)
      let buf := if sentBytes.length ≥ expectedLen then sentBytes.take expectedLen else sentBytes
      if impl == "conn-failed" then { model := "?", oracle := "fail:C09:tcp-connect-failed" }
      else
        match bytesOfHex impl with
        | none => { model := "?", oracle := "fail:C09:unparsable" }
        | some raw =>
          let complete := sentBytes.length ≥ expectedLen
          let expectReply :=
            if complete then buf.length ≥ 2 && !(match decodeMessage buf with | .ok m => m.header.isResponse | .error _ => false)
            else buf.length ≥ 2
          let (model, verdicts) : String × List String :=
            if raw.isEmpty then
              ((match expected with | none => "-" | some bs => hexOfBytes bs),
               if expectReply then ["fail:C09:no-reply-to-a-query"] else [])
            else
              let prefixLen := byteAt raw 0 * 256 + byteAt raw 1
              let body := raw.drop 2
              let m := match expected with
                | none => "-"
                | some bs => if bs.take 2 == raw.take 2 && sameMessageBytes (bs.drop 2) body then impl else hexOfBytes bs
              (m, (if !expectReply then ["fail:C09:replied-to-response-or-runt"] else [])
                  ++ (if prefixLen != body.length then ["fail:C09:tcp-length-prefix"] else [])
                  ++ (if complete then checkReply authOnly buf body false
                      else (if byteAt body 3 % 16 != 1 then ["fail:C09:short-read-not-formerr"] else [])
                           ++ (if byteAt body 0 != byteAt buf 0 || byteAt body 1 != byteAt buf 1 then ["fail:C09:id-not-echoed"] else [])))
          { model, oracle := joinVerdicts verdicts,
            tags := if !complete then "tcp/short" else if sentBytes.length > expectedLen then "tcp/announced-prefix" else "tcp/complete" }
  | _, _, _ => bad "args"

/-! ### reload histories -/

structure FileV where
  name : String
  zone : Option ZoneSpec      -- none = BAD

def parseFiles (s : String) : Option (List FileV) :=
  if s = "-" then some []
  else (s.splitOn "&").mapM (fun e =>
    match e.splitOn "=" with
    | name :: rest =>
      let body := "=".intercalate rest
      if body = "BAD" then some { name, zone := none }
      else (parseZoneSpec body).map (fun z => { name, zone := some z })
    | _ => none)

def loadFiles (files : List FileV) : Option Zones :=
  let sorted := files.mergeSort (fun a b => decide (a.name ≤ b.name))
  let zs : List (Option Zone) := sorted.map (fun f => f.zone.bind buildZone)
  loadConfiguration zs (some Zone.default)

def answerBytes (cfg : Zones) (q : Question) (id : Nat) : Option (List UInt8) :=
  let query : Message := { (requestFor q false) with header := { (requestFor q false).header with id := id } }
  match encodeMessage query with
  | .ok bs => serveUdp true (authOnlyResolver cfg) bs
  | .error _ => none

def parseQs (s : String) : Option (List Question) :=
  if s = "" || s = "-" then some [] else (s.splitOn "+").mapM parseQuestion

def parseAnswers (s : String) : List (Nat × String) :=
  if s = "" || s = "-" then [] else (s.splitOn "+").filterMap (fun e =>
    match e.splitOn ">" with
    | [id, b] => id.toNat?.map (fun id => (id, b))
    | _ => none)

def answerMatches (cfg : Zones) (q : Question) (id : Nat) (impl : String) : Bool :=
  match answerBytes cfg q id, bytesOfHex impl with
  | some bs, some rb => impl != "noreply" && sameMessageBytes bs rb
  | none, _ => impl == "noreply"
  | _, _ => false

def cmdServerReload (steps impl : String) : Result :=
  let stepsIn := steps.splitOn "#"
  let outs := impl.splitOn "#"
  match outs.reverse with
  | aliveS :: revOuts =>
    let stepOuts := revOuts.reverse
    let rec go (ins outs : List String) (live : Option Zones) (acc : List String) (nOk nFail : Nat) : List String × Nat × Nat :=
      match ins, outs with
      | [], [] => (acc, nOk, nFail)
      | i :: ins', o :: outs' =>
        match i.splitOn "@", o.splitOn "@" with
        | ["init", files, qs], [_, answers] =>
          match parseFiles files, parseQs qs with
          | some fs, some qs =>
            let cfg := loadFiles fs
            match cfg with
            | none => (acc ++ ["fail:C19:initial-configuration-invalid-but-server-started"], nOk, nFail)
            | some c =>
              let ans := parseAnswers answers
              let bad := (qs.zip ans).any (fun (q, (id, b)) => !answerMatches c q id b)
              go ins' outs' (some c) (if bad then acc ++ ["fail:C19:initial-answer-differs"] else acc) nOk nFail
          | _, _ => (acc ++ ["fail:C19:unparsable-step"], nOk, nFail)
        | ["reload", files, racing, qs], [verdict, raceAnswers, answers] =>
          match parseFiles files, parseQs racing, parseQs qs, live with
          | some fs, some rqs, some qs, some old =>
            let loaded := loadFiles fs
            let (new, okFlag) := reload old loaded
            let expectVerdict := if okFlag then "success" else "failure"
            let v1 := if verdict != expectVerdict then
              [if okFlag then "fail:C19:valid-configuration-rejected" else "fail:C19:invalid-configuration-accepted"] else []
            -- after the reload: the new configuration only (or the old one, fully, on failure)
            let ans := parseAnswers answers
            let v2 := if (qs.zip ans).any (fun (q, (id, b)) => !answerMatches new q id b) then
              [if okFlag then "fail:C19:answer-not-from-new-configuration" else "fail:C19:failed-reload-changed-answers"] else []
            -- during the reload: entirely old or entirely new
            let rans := parseAnswers raceAnswers
            let v3 := if (rqs.zip rans).any (fun (q, (id, b)) => !(answerMatches old q id b || answerMatches new q id b)) then
              ["fail:C19:answer-during-reload-neither-old-nor-new"] else []
            let v4 := if ans.any (fun (_, b) => b == "noreply") || rans.any (fun (_, b) => b == "noreply") then
              ["fail:C19:query-unanswered"] else []
            go ins' outs' (some new) (acc ++ v1 ++ v2 ++ v3 ++ v4) (if okFlag then nOk + 1 else nOk) (if okFlag then nFail else nFail + 1)
          | _, _, _, _ => (acc ++ ["fail:C19:unparsable-step"], nOk, nFail)
        | _, _ => (acc ++ ["fail:C19:unparsable-step"], nOk, nFail)
      | _, _ => (acc ++ ["fail:C19:step-count"], nOk, nFail)
    let (vs, nOk, nFail) := go stepsIn stepOuts none [] 0 0
    let vs := if aliveS != "alive" then vs ++ ["fail:C19:server-died"] else vs
    -- the model's prediction of the observable verdict sequence is part of the oracle above; the
    -- raw answers are compared canonically there too, so the "model output" is the implementation's
    -- own text when every step matched
    { model := if vs.isEmpty then impl else "model-differs", oracle := joinVerdicts vs,
      tags := s!"reload/ok{nOk}/failed{nFail}" }
  | [] => bad "impl"

end Resolved.Driver
